----------------------------- MODULE CodecJudge -----------------------------
(* Judges what the real client emitted for each request class of Codec     *)
(* (property C09): the decoded packet must be Codec!Expect(request).pk,    *)
(* denial must coincide with invalidity, and a denial must leave no trace. *)
EXTENDS Codec, Json, IOUtils, SequencesExt

R == ndJsonDeserialize(IOEnv.VERIF_TRACE)

VARIABLES l, bad
jvars == <<l, bad, req, phase, wire>>

Failed(r) ==
  LET x == Expect(r.req) IN
  IF r.err = "skipped" THEN {} ELSE
    {c \in {"C09_DenyExactlyInvalid"} : x.deny # (r.err \in {"deny", "ctor"})}
    \cup {c \in {"C09_Decodes"} : ~x.deny /\ ~(r.err = "nil" /\ r.npk = 1 /\ r.pk = x.pk /\ r.wellformed /\ r.reenc /\ r.content_eq)}
    \cup {c \in {"C09_NoTrace"} : (x.deny \/ r.err \in {"deny", "ctor"}) /\
             ~(r.npk = 0 /\ r.saves = 0 /\ r.slots_delta = 0 /\ r.n_delta = 0 /\ (r.err = "deny" => r.probe = "ok"))}
    \cup {c \in {"C09_DenyEndDisjoint"} : r.err = "deny" /\ r.isend}

JInit == l = 1 /\ bad = {} /\ req = Blank /\ phase = "done" /\ wire = <<>>
JStep ==
  /\ l <= Len(R)
  /\ bad' = bad \cup {<<c, R[l].case>> : c \in Failed(R[l])}
  /\ l' = l + 1 /\ UNCHANGED vars
JEnd ==
  /\ l = Len(R) + 1
  /\ ndJsonSerialize(IOEnv.VERIF_RESULT, <<[done |-> Len(R), bad |-> SetToSeq(bad), div |-> <<>>]>>)
  /\ l' = l + 1 /\ UNCHANGED <<bad, vars>>
JSpec == JInit /\ [][JStep \/ JEnd]_jvars
=============================================================================
