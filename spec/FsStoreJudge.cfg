SPECIFICATION JSpec
CHECK_DEADLOCK FALSE
