SPECIFICATION MSpec
CHECK_DEADLOCK FALSE
