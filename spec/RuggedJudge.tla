---------------------------- MODULE RuggedJudge ----------------------------
(* Judges what the real record encoding did (property C15).  Lines:        *)
(*  enc    - VerifEncodeValue/VerifDecodeValue on (p, s): layout and       *)
(*           round trip against Rugged!Encode / Rugged!Decode              *)
(*  dmg    - every single-byte alteration of an encoded record: the list   *)
(*           of alterations that were NOT reported must be empty           *)
(*  trunc  - every truncation below 12 bytes must be reported              *)
(*  stored - a raw value a real client handed to its Persistence           *)
(*  adopt  - damaged copies of such a value given to AdoptSession / to a   *)
(*           connecting client                                             *)
EXTENDS Rugged, Json, IOUtils

R == ndJsonDeserialize(IOEnv.VERIF_TRACE)

VARIABLES l, bad
jvars == <<l, bad, val, orig, state>>

Failed(r) ==
  CASE r.ev = "enc" ->
         {c \in {"C15_Layout"} : r.enc # Encode(r.p, r.s)}
         \cup {c \in {"C15_RoundTrip"} : ~(r.dec_ok /\ r.dec_p = r.p /\ r.dec_s = r.s /\ Decode(r.enc).ok)}
    [] r.ev \in {"dmg", "trunc"} ->
         {c \in {"C15_DamageDetected"} : r.undetected # <<>>}
    [] r.ev = "stored" ->
         {c \in {"C15_Layout"} : ~Decode(r.val).ok}
    [] r.ev = "adopt" ->
         {c \in {"C15_DamageDetected"} : r.not_warned # <<>> \/ r.not_deleted # <<>> \/ r.counted # <<>> \/ r.dialed # <<>>}
         \cup {c \in {"C15_NoPanic"} : r.panics # 0 \/ r.fatal # 0}
    [] OTHER -> {"C15_UnknownLine"}

JInit == l = 1 /\ bad = {} /\ val = <<>> /\ orig = [p |-> <<>>, s |-> <<>>] /\ state = "empty"
JStep ==
  /\ l <= Len(R)
  /\ bad' = bad \cup {<<c, R[l].case>> : c \in Failed(R[l])}
  /\ l' = l + 1 /\ UNCHANGED vars
JEnd ==
  /\ l = Len(R) + 1
  /\ ndJsonSerialize(IOEnv.VERIF_RESULT, <<[done |-> Len(R), bad |-> SetToSeq(bad), div |-> <<>>]>>)
  /\ l' = l + 1 /\ UNCHANGED <<bad, vars>>
JSpec == JInit /\ [][JStep \/ JEnd]_jvars
=============================================================================
