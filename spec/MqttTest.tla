------------------------------ MODULE MqttTest ------------------------------
(***************************************************************************)
(* The test doubles of package mqtttest as small state machines (property  *)
(* C20).  A double is configured once (expectation list, fixed return or   *)
(* exchange script), is then invoked any number of times, and - for the    *)
(* mocks - is finally inspected by the Cleanup function it registered on   *)
(* the testing.TB.  Observable per step: the return value class, whether   *)
(* the step reported a test failure (Error/Errorf/Fatalf on the TB), and   *)
(* for slices whether the caller's data is aliased.                        *)
(*                                                                         *)
(* The specification describes the intended behaviour.  Two deviations of  *)
(* the pinned tree are switches: DEV_F12 (NewPublishMock compares with &&) *)
(* and DEV_F16 (newSubscribeMock indexes want[i] after "unwanted").        *)
(***************************************************************************)
EXTENDS Naturals, Sequences, FiniteSets, TLC

CONSTANTS MaxWant,      \* longest expectation list / script
          MaxCalls,     \* most invocations per double
          DEV_F12, DEV_F16

Msgs    == {"m1", "m2"}
Topics  == {"t1", "t2"}
Errs    == {"nil", "E"}            \* fixed result: nil or some error E
Quits   == {"nil", "open", "closed"}
FilterLists == {<<"a">>, <<"b">>, <<"a", "b">>, <<"b", "a">>, <<"a", "a">>, <<"a", "b", "c">>}
ScriptAlphabet == {"E", "C", "B0", "Bd", "N"}   \* error, ErrClosed, indefinite block, finite block, nil entry

MockKinds == {"PublishMock", "ReadSlicesMock", "SubscribeMock", "UnsubscribeMock"}
StubKinds == {"PublishStub", "ReadSlicesStub", "SubscribeStub", "UnsubscribeStub", "ExchangeStub"}

SeqsUpTo(S, n) == UNION {[1..k -> S] : k \in 0..n}
Range(s) == {s[i] : i \in DOMAIN s}
HasDup(s) == Cardinality(Range(s)) # Len(s)

Transfer == [m : Msgs, t : Topics, e : Errs]
Filter   == [f : FilterLists, e : Errs]

(* A double is a record; unused fields hold neutral values so that all     *)
(* doubles live in one set.                                                *)
Double(k, w, fx, sc, ef) == [kind |-> k, want |-> w, fix |-> fx, script |-> sc, errfix |-> ef]
NoFix == [m |-> "m1", t |-> "t1", e |-> "nil"]

Doubles ==
       {Double("PublishMock", w, NoFix, <<>>, "nil") : w \in SeqsUpTo(Transfer, MaxWant)}
  \cup {Double("ReadSlicesMock", w, NoFix, <<>>, "nil") : w \in SeqsUpTo(Transfer, MaxWant)}
  \cup {Double(k, w, NoFix, <<>>, "nil") : k \in {"SubscribeMock", "UnsubscribeMock"}, w \in SeqsUpTo(Filter, MaxWant)}
  \cup {Double(k, <<>>, [NoFix EXCEPT !.e = e], <<>>, "nil") : k \in {"PublishStub", "SubscribeStub", "UnsubscribeStub"}, e \in Errs}
  \cup {Double("ReadSlicesStub", <<>>, fx, <<>>, "nil") : fx \in Transfer}
  \cup {Double("ExchangeStub", <<>>, NoFix, sc, ef) : sc \in SeqsUpTo(ScriptAlphabet, MaxWant + 1), ef \in Errs}

(* Invocations per kind.                                                   *)
PubCall == [quit : Quits, m : Msgs, t : Topics]
SubCall == [quit : Quits, f : FilterLists \cup {<<>>}]
NilCall == {[quit |-> "nil"]}
CallsOf(kind) ==
  CASE kind \in {"PublishMock", "PublishStub"} -> PubCall
    [] kind \in {"SubscribeMock", "UnsubscribeMock"} -> SubCall
    [] kind \in {"SubscribeStub", "UnsubscribeStub"} -> [quit : Quits, f : FilterLists]  \* empty list panics by documentation of the stub
    [] OTHER -> NilCall

(* Exchange scripts NewPublishExchangeStub accepts.                        *)
ScriptValid(sc, ef) ==
  /\ ef # "nil" => sc = <<>>
  /\ \A i \in DOMAIN sc :
       /\ sc[i] # "N"
       /\ sc[i] \in {"C", "B0"} => i = Len(sc)
ScriptItems(sc) == SelectSeq(sc, LAMBDA x : x \in {"E", "C"})
ScriptCloses(sc) == sc = <<>> \/ sc[Len(sc)] \notin {"C", "B0"}

-----------------------------------------------------------------------------
VARIABLES dbl,      \* the configured double
          phase,    \* "live", "dead" (constructor panicked), "clean" (Cleanup ran)
          idx,      \* expectations consumed
          hist,     \* invocations so far
          outs      \* observable outcome of every step, parallel to hist (+ cleanup)

vars == <<dbl, phase, idx, hist, outs>>

YN(b) == IF b THEN "y" ELSE "n"
Out(ret, failed) == [ret |-> ret, fail |-> YN(failed), fatal |-> FALSE, m |-> "", t |-> "", aliased |-> FALSE,
                   items |-> <<>>, closes |-> FALSE]

Init ==
  /\ dbl \in Doubles
  /\ phase = IF dbl.kind = "ExchangeStub" /\ ~ScriptValid(dbl.script, dbl.errfix) THEN "dead" ELSE "live"
  /\ idx = 0
  /\ hist = <<>>
  /\ outs = <<>>

(* The outcome of one invocation c in the current state, and the next idx. *)
PublishMockStep(c) ==
  IF c.quit = "closed" THEN <<Out("canceled", FALSE), idx>>
  ELSE IF idx + 1 > Len(dbl.want) THEN <<Out("nil", TRUE), idx + 1>>
  ELSE LET w == dbl.want[idx + 1]
           differs == IF DEV_F12 THEN c.m # w.m /\ c.t # w.t ELSE c.m # w.m \/ c.t # w.t
       IN  <<Out(w.e, differs), idx + 1>>

ReadSlicesMockStep ==
  IF idx + 1 > Len(dbl.want) THEN <<Out("other", TRUE), idx + 1>>
  ELSE LET w == dbl.want[idx + 1]
       IN  <<[Out(w.e, FALSE) EXCEPT !.m = w.m, !.t = w.t], idx + 1>>

(* "free": the property does not fix this component (duplicate filters in  *)
(* one invocation; the return value after an unwanted invocation).         *)
SubscribeMockStep(c) ==
  IF c.f = <<>> THEN <<[Out("none", TRUE) EXCEPT !.fatal = TRUE], idx>>
  ELSE IF c.quit = "closed" THEN <<Out("canceled", FALSE), idx>>
  ELSE IF idx + 1 > Len(dbl.want) THEN <<Out(IF DEV_F16 THEN "panic" ELSE "free", TRUE), idx + 1>>
  ELSE LET w == dbl.want[idx + 1]
       IN  <<[ret |-> w.e,
              fail |-> IF HasDup(c.f) \/ HasDup(w.f) THEN "free" ELSE YN(Range(c.f) # Range(w.f)),
              fatal |-> FALSE, m |-> "", t |-> "", aliased |-> FALSE, items |-> <<>>, closes |-> FALSE],
             idx + 1>>

StubStep(c) ==
  CASE dbl.kind \in {"PublishStub", "SubscribeStub", "UnsubscribeStub"} ->
         <<Out(IF c.quit = "closed" THEN "canceled" ELSE dbl.fix.e, FALSE), idx>>
    [] dbl.kind = "ReadSlicesStub" ->
         <<[Out(dbl.fix.e, FALSE) EXCEPT !.m = dbl.fix.m, !.t = dbl.fix.t], idx>>
    [] dbl.kind = "ExchangeStub" ->
         IF dbl.errfix # "nil" THEN <<Out(dbl.errfix, FALSE), idx>>
         ELSE <<[Out("nil", FALSE) EXCEPT !.items = ScriptItems(dbl.script), !.closes = ScriptCloses(dbl.script)], idx>>

StepOf(c) ==
  CASE dbl.kind = "PublishMock" -> PublishMockStep(c)
    [] dbl.kind = "ReadSlicesMock" -> ReadSlicesMockStep
    [] dbl.kind \in {"SubscribeMock", "UnsubscribeMock"} -> SubscribeMockStep(c)
    [] OTHER -> StubStep(c)

Invoke(c) ==
  /\ phase = "live"
  /\ Len(hist) < MaxCalls
  /\ c \in CallsOf(dbl.kind)
  /\ LET r == StepOf(c) IN
       /\ idx' = r[2]
       /\ outs' = Append(outs, r[1])
  /\ hist' = Append(hist, c)
  /\ UNCHANGED <<dbl, phase>>

(* After too many invocations (each reported when it happened) the pinned  *)
(* Cleanup reports once more (its unsigned difference underflows); the     *)
(* test has failed already, so the extra report is left free.              *)
CleanupOut == [Out("none", idx < Len(dbl.want)) EXCEPT !.fail = IF idx > Len(dbl.want) THEN "free" ELSE @]

Cleanup ==
  /\ phase = "live"
  /\ dbl.kind \in MockKinds
  /\ phase' = "clean"
  /\ outs' = Append(outs, CleanupOut)
  /\ UNCHANGED <<dbl, idx, hist>>

Next == Cleanup \/ \E c \in CallsOf(dbl.kind) : Invoke(c)
Spec == Init /\ [][Next]_vars

-----------------------------------------------------------------------------
(* C20, stated over the history and independent of the step definitions.   *)

Effective == SelectSeq(hist, LAMBDA c : ~("quit" \in DOMAIN c /\ c.quit = "closed") /\ ~("f" \in DOMAIN c /\ c.f = <<>>))
Matches(c, w) ==
  CASE dbl.kind = "PublishMock" -> c.m = w.m /\ c.t = w.t
    [] dbl.kind \in {"SubscribeMock", "UnsubscribeMock"} -> Range(c.f) = Range(w.f)
    [] OTHER -> TRUE
Ambiguous == \* duplicate filters: the property does not say whether they deviate
  /\ dbl.kind \in {"SubscribeMock", "UnsubscribeMock"}
  /\ \/ \E i \in DOMAIN hist : HasDup(hist[i].f)
     \/ \E i \in DOMAIN dbl.want : HasDup(dbl.want[i].f)
Deviation ==
  \/ \E k \in DOMAIN Effective : k > Len(dbl.want) \/ ~Matches(Effective[k], dbl.want[k])
  \/ \E i \in DOMAIN hist : "f" \in DOMAIN hist[i] /\ hist[i].f = <<>>
  \/ phase = "clean" /\ Len(Effective) < Len(dbl.want)
AnyFail == \E i \in DOMAIN outs : outs[i].fail = "y"

C20_FailIffDeviation ==
  dbl.kind \in MockKinds /\ ~Ambiguous => (AnyFail <=> Deviation)
C20_StubsNeverFail ==
  dbl.kind \in StubKinds => ~AnyFail
C20_QuitMeansCanceled ==
  \A i \in DOMAIN hist :
    ("quit" \in DOMAIN hist[i] /\ hist[i].quit = "closed" /\ dbl.kind # "ExchangeStub" /\ outs[i].fatal = FALSE
       /\ dbl.kind \notin {"ReadSlicesMock", "ReadSlicesStub"})
      => outs[i].ret = "canceled" /\ outs[i].fail = "n"
C20_PrivateCopies == \A i \in DOMAIN outs : outs[i].aliased = FALSE
C20_NoPanic == \A i \in DOMAIN outs : outs[i].ret # "panic"
C20_ExchangeScript ==
  dbl.kind = "ExchangeStub" =>
    /\ phase = "dead" <=> ~ScriptValid(dbl.script, dbl.errfix)
    /\ \A i \in DOMAIN outs :
         IF dbl.errfix # "nil" THEN outs[i].ret = dbl.errfix
         ELSE /\ outs[i].items = ScriptItems(dbl.script)
              /\ outs[i].closes = ScriptCloses(dbl.script)
=============================================================================
