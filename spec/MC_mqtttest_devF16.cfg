CONSTANTS SampleK = 1 MaxWant = 1 MaxCalls = 2 DEV_F12 = FALSE DEV_F16 = TRUE
SPECIFICATION Spec
INVARIANTS C20_FailIffDeviation C20_StubsNeverFail C20_QuitMeansCanceled C20_PrivateCopies C20_NoPanic C20_ExchangeScript
CHECK_DEADLOCK FALSE
CONSTRAINT Export
