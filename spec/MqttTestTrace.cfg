CONSTANTS MaxWant = 9 MaxCalls = 9 DEV_F12 = FALSE DEV_F16 = FALSE
SPECIFICATION TraceSpec
CHECK_DEADLOCK FALSE
