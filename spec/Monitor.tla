------------------------------ MODULE Monitor ------------------------------
(***************************************************************************)
(* Observation-only judge of event traces recorded from the real client.   *)
(* The observation state m is updated from observable events only (calls   *)
(* and returns, dials, bytes written and read per connection in decoded    *)
(* form, Persistence operations, exchange channels, signal channels, the   *)
(* broker's log, stops and adoptions, panics, calls that never returned).  *)
(* The property predicates of C01-C05, C07, C10-C14, C16-C18 are evaluated *)
(* clause by clause while the events are consumed; a clause found false is *)
(* recorded as <<clause, case>>.  Nothing here depends on the model of the *)
(* client (MqttClient.tla): a trace that diverges from the model is still  *)
(* judged.  MqttClient's actions emit the same events and feed the same    *)
(* ObsStep, so the identical predicates are checked on the design.         *)
(***************************************************************************)
EXTENDS Naturals, Integers, Sequences, FiniteSets, TLC, SequencesExt

IdMod == 16384
Space1 == 32768      \* 0x8000 at-least-once
Space2 == 49152      \* 0xc000 exactly-once
SubSpace == 24576    \* 0x6000
UnsubSpace == 16384  \* 0x4000
MarkFlag == 65536    \* inbound marker keys

LevelOfKey(k) == IF k >= Space2 /\ k < MarkFlag THEN 2 ELSE IF k >= Space1 /\ k < Space2 THEN 1 ELSE 0
Put(f, k, v) == (k :> v) @@ f
Has(f, k) == k \in DOMAIN f
RangeOf(s) == {s[i] : i \in DOMAIN s}
IsReader(p) == Len(p) >= 2 /\ SubSeq(p, 1, 2) = "rd"

NewMsg(tag, level, gen, id) ==
  [tag |-> tag, level |-> level, gen |-> gen, id |-> id, saved |-> TRUE, deleted |-> FALSE, ret |-> "none",
   wfull |-> 0, wgen |-> 0, wpartial |-> FALSE, rec |-> FALSE, relSaved |-> FALSE, acked |-> FALSE,
   exc |-> "open", exerrs |-> 0, exAfterClose |-> FALSE, deliv |-> 0, conns |-> {}]

NewConn(owed, owedRel) ==
  [owedRel |-> owedRel, pk |-> <<>>, tail |-> 0, dirty |-> FALSE, connack |-> "none", other |-> FALSE, disc |-> FALSE, nread |-> 0,
   owed |-> owed, midBy |-> "", mustReset |-> FALSE, closedByClient |-> FALSE, last1 |-> -1, last2 |-> -1, lastrel |-> -1, closed |-> FALSE, clean |-> FALSE, inpk |-> <<>>]

Init0 ==
  [gen |-> 0, amax |-> 0, emax |-> 0, clean |-> FALSE, phase |-> "run", faulty |-> FALSE, hostile |-> FALSE,
   msgs |-> <<>>, owner |-> <<>>, order1 |-> <<>>, order2 |-> <<>>, refused |-> {},
   conns |-> <<>>, cur |-> 0, everEstab |-> FALSE, online |-> FALSE, offline |-> TRUE,
   closeRet |-> FALSE, rsClosed |-> FALSE, calls |-> <<>>, subs |-> <<>>, sacks |-> <<>>, sacksRead |-> <<>>,
   pongs |-> 0, pings |-> 0,
   pend1 |-> <<>>, pend2 |-> <<>>, awaitResend |-> FALSE, last1 |-> -1, last2 |-> -1, unkPartial |-> FALSE,
   inb |-> <<>>, inbId |-> <<>>, held |-> {}, owedAcks |-> <<>>, marks |-> {}, damaged |-> {}, diverged |-> FALSE,
   lastFail |-> FALSE, nstops |-> 0, closedEarly |-> FALSE, closeCalled |-> FALSE, altered |-> {}, sent0 |-> {},
   frame |-> FALSE, nopause |-> FALSE, sentSeq |-> <<>>, retSeq |-> <<>>, bigPending |-> -1,
   garbled |-> FALSE, relDone |-> {}, ambig |-> {}, attemptOpen |-> FALSE, down |-> "no", downSure |-> FALSE, lwGot |-> <<>>, stalls |-> <<>>]

(* ---------------------------------------------------------------------- *)
(* helpers on the outbound bookkeeping                                     *)

Pending(m, level) ==
  SelectSeq(IF level = 1 THEN m.order1 ELSE m.order2, LAMBDA t : m.msgs[t].saved /\ ~m.msgs[t].deleted)
Unacked(m, level) ==
  SelectSeq(IF level = 1 THEN m.order1 ELSE m.order2, LAMBDA t : ~m.msgs[t].acked /\ ~m.msgs[t].deleted)
FirstOr(s, d) == IF s = <<>> THEN d ELSE s[1]
NextId(prev) == IF prev < Space2 THEN Space1 + ((prev - Space1 + 1) % IdMod) ELSE Space2 + ((prev - Space2 + 1) % IdMod)
SeqDist(a, b) == (b - a + IdMod) % IdMod      \* how far b is ahead of a in sequence order

R(m, fails) == [m |-> m, fails |-> fails]
If(c, name) == IF c THEN {name} ELSE {}

(* ---------------------------------------------------------------------- *)
(* Persistence operations                                                  *)

OnStore(m, e) ==
  LET k == e.key
      lvl == LevelOfKey(k)
  IN
  IF e.err THEN R([m EXCEPT !.faulty = TRUE, !.down = IF e.op = "Load" /\ k = 0 THEN "yes" ELSE @,
                            !.attemptOpen = @ \/ (e.op = "Load" /\ k = 0),
                            !.downSure = IF e.op = "Load" /\ k = 0 THEN FALSE ELSE @], {})
  ELSE IF e.op = "Save" /\ ~e.ok THEN R(m, {"C15_StoredRecordValid"})
  ELSE IF e.op = "Load" /\ k = 0 THEN R([m EXCEPT !.attemptOpen = TRUE, !.downSure = FALSE], {})
  ELSE IF e.op = "Save" /\ e.kind = "PUB" /\ lvl > 0 THEN
    LET t == e.tag
        prev == IF lvl = 1 THEN m.last1 ELSE m.last2
        npend == Len(Pending(m, lvl))
        max == IF lvl = 1 THEN m.amax ELSE m.emax
        fails ==
             If(Has(m.owner, k) /\ m.owner[k] # t /\ ~m.msgs[m.owner[k]].deleted, "C17_Distinct")
          \cup If(lvl = 2 /\ Has(m.owner, k) /\ m.owner[k] # t /\ ~m.msgs[m.owner[k]].deleted, "C03_IdNotReused")
          \cup If(npend + 1 > max, "C17_Bounded")
          \cup If(e.id # k \/ k % IdMod # e.id % IdMod, "C17_IdRange")
          \cup If(prev # -1 /\ k # NextId(prev), "C05_IdOrderIsAcceptOrder")
          \cup If(Has(m.msgs, t) /\ m.msgs[t].saved /\ ~m.msgs[t].deleted, "C17_SavedTwice")
        m2 == [m EXCEPT !.msgs = Put(@, t, NewMsg(t, lvl, m.gen, k)), !.owner = Put(@, k, t),
                        !.order1 = IF lvl = 1 THEN Append(@, t) ELSE @,
                        !.order2 = IF lvl = 2 THEN Append(@, t) ELSE @,
                        !.last1 = IF lvl = 1 THEN k ELSE @, !.last2 = IF lvl = 2 THEN k ELSE @]
    IN R(m2, fails)
  ELSE IF e.op = "Save" /\ e.kind = "REL" /\ lvl = 2 THEN
    IF Has(m.owner, k) THEN
      LET t == m.owner[k] IN
      R([m EXCEPT !.msgs[t].relSaved = TRUE], If(~m.msgs[t].rec /\ ~m.garbled, "C13_NoForgedProgress"))
    ELSE R(m, {"C03_RelForUnknown"})
  ELSE IF e.op = "Save" /\ (e.kind = "MARK" \/ k >= MarkFlag) THEN
    \* a marker is saved for a message that was returned and whose cycle is still open, and for nothing else
    \* (a stale marker makes the next message with that identifier disappear); whatever is saved under a
    \* marker key is a marker
    LET id == k - MarkFlag
        known == Has(m.inbId, id)
        tg == IF known THEN m.inbId[id] ELSE 0
    IN R([m EXCEPT !.marks = @ \cup {id}],
         If(known /\ id \notin m.ambig /\ ~m.hostile /\ (id \in m.relDone \/ m.inb[tg].returned = 0), "C04_MarkerOnlyWhileOwed"))
  \* the client handled the PUBREL of that identifier: the cycle is over until a message with it is returned again
  ELSE IF e.op = "Delete" /\ k >= MarkFlag THEN R([m EXCEPT !.marks = @ \ {k - MarkFlag}, !.relDone = @ \cup {k - MarkFlag}], {})
  ELSE IF e.op = "Delete" /\ lvl > 0 /\ Has(m.owner, k) /\ e.found THEN
    LET t == m.owner[k] IN
    IF e.p = "env" THEN R([m EXCEPT !.msgs[t].deleted = TRUE], If(k \notin m.damaged, "C16_OnlyCorruptDropped"))
    ELSE R([m EXCEPT !.msgs[t].deleted = TRUE], If(~m.msgs[t].acked /\ ~m.garbled, "C01_NoForgedCompletion"))
  ELSE R(m, {})

(* ---------------------------------------------------------------------- *)
(* bytes written by the client                                             *)

OnWritePacket(acc, pk) ==
  LET m == acc.m
      c == acc.c
      p == acc.p
      cn == m.conns[c]
      first == cn.pk = <<>>
      base ==
           If(first /\ pk.t # "CONNECT", "C18_ConnectFirst")
        \cup If(~first /\ pk.t = "CONNECT", "C18_ConnectFirst")
        \cup If(pk.t = "CONNECT" /\ pk.clean /\ ~(m.clean /\ ~m.everEstab), "C18_CleanOnlyUntilEstablished")
        \cup If(pk.t = "CONNECT" /\ ~pk.clean /\ m.clean /\ ~m.everEstab, "C18_ConnectReflectsConfig")
        \cup If(pk.t # "CONNECT" /\ cn.connack # "ok", "C18_NothingBeforeConnack")
        \cup If(pk.bad # "", "C08_WholePackets")
        \cup If(cn.disc, "C12_DisconnectLast")
        \cup If(pk.t \in {"CONNACK", "SUBACK", "UNSUBACK", "PINGRESP", "RESERVED0", "RESERVED15"}, "C09_ClientPacketTypes")
      \* (only what the wire-order clauses look at is kept: the observation state has to stay small on long histories)
      cn1 == [cn EXCEPT !.pk = IF pk.t \in {"CONNECT", "PUBLISH", "PUBREL"} THEN Append(@, pk) ELSE @, !.clean = IF pk.t = "CONNECT" THEN pk.clean ELSE @,
                        !.disc = @ \/ pk.t = "DISCONNECT",
                        !.other = @ \/ (~IsReader(p) /\ pk.t \notin {"CONNECT"})]
  IN
  IF pk.t = "PUBLISH" /\ pk.qos > 0 THEN
    LET t == pk.tag
        known == Has(m.msgs, t) /\ m.msgs[t].saved
        ms == IF known THEN m.msgs[t] ELSE NewMsg(t, pk.qos, m.gen, pk.id)
        prevOn == IF pk.qos = 1 THEN cn.last1 ELSE cn.last2
        max == IF pk.qos = 1 THEN m.amax ELSE m.emax
        fails == base
          \cup If(~known, "C01_PersistedBeforeSent")
          \cup If(t \in m.refused, "C01_ErrorMeansNotEnqueued")
          \cup If(known /\ ms.level # pk.qos, "C09_LevelMismatch")
          \cup If(known /\ ms.id # pk.id, "C05_SameIdOnResend")
          \cup If(known /\ pk.qos = 2 /\ ms.relSaved /\ ~ms.acked, "C03_NoPublishAfterRec")
          \cup If(known /\ ms.deleted, "C01_NoSendAfterCompletion")
          \cup If(known /\ ~pk.dup /\ ms.wfull > 0 /\ ms.wgen = m.gen, "C05_DupOnRetransmission")
          \cup If(known /\ pk.dup /\ ms.gen = m.gen /\ ms.wfull = 0 /\ ~ms.wpartial /\ ~m.unkPartial, "C05_NoDupOnFirst")
          \cup If(prevOn # -1 /\ ~(SeqDist(prevOn, pk.id) \in 1..(IF max > 0 THEN max ELSE 1)), "C05_WireOrderIsIdOrder")
          \cup If(IsReader(p) /\ cn.other, "C18_ResendBeforeNew")
          \cup If(LevelOfKey(pk.id) # pk.qos, "C17_IdRange")
        ms2 == [ms EXCEPT !.wfull = @ + 1, !.wgen = m.gen, !.conns = @ \cup {c}]
        cn2 == [cn1 EXCEPT !.last1 = IF pk.qos = 1 THEN pk.id ELSE @, !.last2 = IF pk.qos = 2 THEN pk.id ELSE @]
    IN [acc EXCEPT !.m = [m EXCEPT !.conns[c] = cn2, !.msgs = IF known THEN Put(@, t, ms2) ELSE @], !.fails = @ \cup fails]
  ELSE IF pk.t = "PUBREL" THEN
    LET known == Has(m.owner, pk.id) /\ LevelOfKey(pk.id) = 2
        t == IF known THEN m.owner[pk.id] ELSE 0
        fails == base
          \cup If(~known, "C03_RelForUnknown")
          \cup If(known /\ ~m.msgs[t].relSaved, "C03_RelSavedBeforeSent")
          \cup If(known /\ m.msgs[t].deleted, "C01_NoSendAfterCompletion")
          \* a PUBREL may be repeated (the owed one is flushed again after a reconnect); it never goes backwards
          \cup If(cn.lastrel # -1 /\ ~(SeqDist(cn.lastrel, pk.id) \in 0..(IF m.emax > 0 THEN m.emax ELSE 1)), "C05_RelOrderIsRecOrder")
        cn2 == [cn1 EXCEPT !.lastrel = pk.id]
    IN [acc EXCEPT !.m = [m EXCEPT !.conns[c] = cn2, !.msgs = IF known THEN [@ EXCEPT ![t].conns = @ \cup {c}] ELSE @],
                   !.fails = @ \cup fails]
  ELSE IF pk.t \in {"SUBSCRIBE", "UNSUBSCRIBE"} THEN
    LET space == IF pk.t = "SUBSCRIBE" THEN SubSpace ELSE UnsubSpace
        fails == base
          \cup If(pk.id < space \/ pk.id >= space + 8192, "C17_IdRange")
          \cup If(Has(m.subs, pk.id) /\ m.subs[pk.id].open, "C17_Distinct")
    IN [acc EXCEPT !.m = [m EXCEPT !.conns[c] = cn1,
                                  !.subs = Put(@, pk.id, [filt |-> pk.filt, p |-> p, t |-> pk.t, open |-> TRUE, c |-> c]),
                                  !.calls = IF Has(@, p) THEN [@ EXCEPT ![p].reqid = pk.id] ELSE @],
                   !.fails = @ \cup fails]
  ELSE IF pk.t \in {"PUBACK", "PUBREC"} THEN
    \* acknowledgement of an inbound message: only after the application took ownership (C07)
    LET known == Has(m.inbId, pk.id)
        tg == IF known THEN m.inbId[pk.id] ELSE 0
        sure == known /\ pk.id \notin m.ambig
        fails == base
          \cup If(known /\ tg \in m.held, "C07_NoAckWhileHeld")
          \cup If(~known, "C07_AckedOnlyIfReceived")
          \cup If(sure /\ (m.inb[tg].qos = 1) # (pk.t = "PUBACK"), "C07_AckCarriesId")
          \cup If(sure /\ m.inb[tg].returned = 0, "C07_AckedOnlyIfReturned")
          \* the PUBREC goes out only with the ownership marker saved: that is what carries the cycle over a restart
          \cup If(sure /\ pk.t = "PUBREC" /\ pk.id \notin m.marks /\ m.damaged = {} /\ ~m.hostile, "C04_MarkerSavedBeforeRec")
    IN [acc EXCEPT !.m = [m EXCEPT !.conns[c] = cn1,
                                  !.inb = IF known THEN [@ EXCEPT ![tg].acks = @ + 1, ![tg].owed = FALSE,
                                                                  ![tg].recW = @ \/ (sure /\ pk.t = "PUBREC" /\ m.inb[tg].qos = 2)] ELSE @],
                   !.fails = @ \cup fails]
  ELSE IF pk.t = "PINGREQ" THEN
    \* remember how many PINGRESPs the client had read when this Ping submitted its request
    [acc EXCEPT !.m = [m EXCEPT !.conns[c] = cn1, !.pings = @ + 1,
                                !.calls = IF Has(@, acc.p) /\ @[acc.p].m = "Ping" THEN [@ EXCEPT ![acc.p].pongsW = m.pongs] ELSE @],
                !.fails = @ \cup base]
  ELSE [acc EXCEPT !.m = [m EXCEPT !.conns[c] = cn1], !.fails = @ \cup base]

OnWrite(m, e) ==
  IF ~Has(m.conns, e.c) THEN R(m, {"Harness_UnknownConn"}) ELSE
  LET cn == m.conns[e.c]
      pre == If(e.n > 0 /\ cn.dirty, "C08_NothingAfterIncomplete")
          \* the previous Write on this connection was not accepted in full and these are not the bytes it left over
          \cup If(e.n > 0 /\ ~e.cont, "C08_NothingAfterIncomplete")
          \cup If(e.n > 0 /\ cn.tail > 0 /\ cn.midBy # e.p, "C08_WholePackets")
          \cup If(e.overlap, "C08_NoConcurrentWrite")
          \cup If(e.err \in {"timeout-unarmed", "bad-outcome"}, "Harness_BadOutcome")
      acc == FoldLeft(OnWritePacket, [m |-> m, fails |-> pre, c |-> e.c, p |-> e.p], e.pk)
      m1 == acc.m
      \* a deadline expiry may be followed by the rest of the packet (progress is judged per write
      \* call of the library, which can span several Write calls of a vectored write)
      failed == e.err \in {"hard", "closed"}
      m2 == [m1 EXCEPT !.conns[e.c].tail = e.tail,
                       !.conns[e.c].midBy = IF e.tail > 0 THEN e.p ELSE "",
                       !.conns[e.c].dirty = @ \/ (failed /\ e.tail > 0),
                       !.calls = IF Has(@, e.p) THEN [@ EXCEPT ![e.p].wrote = @ + e.n] ELSE @,
                       !.unkPartial = @ \/ (e.tail > 0 /\ e.ptype = "PUBLISH" /\ e.pid = 0),
                       !.msgs = IF e.tail > 0 /\ e.ptype = "PUBLISH" /\ e.pid # 0 /\ Has(m1.owner, e.pid)
                                THEN [@ EXCEPT ![m1.owner[e.pid]].wpartial = TRUE] ELSE @]
  IN R(m2, acc.fails)

(* ---------------------------------------------------------------------- *)
(* bytes read by the client                                                *)

OnReadPacket(acc, pk) ==
  LET m == acc.m
      c == acc.c
      cn == m.conns[c]
      first == cn.nread = 0
      cn1 == [cn EXCEPT !.nread = @ + 1]   \* (the packets themselves are not kept: no clause reads them back)
  IN
  IF first THEN
    LET ok == pk.t = "CONNACK" /\ pk.bad = "" /\ pk.rc = 0 /\ pk.sp \in {0, 1} /\ ~(pk.sp = 1 /\ cn.clean)
    IN [acc EXCEPT !.m = [m EXCEPT !.conns[c] = [cn1 EXCEPT !.connack = IF ok THEN "ok" ELSE "bad"],
                                  !.everEstab = @ \/ ok]]
  ELSE IF cn.connack # "ok" THEN [acc EXCEPT !.m = [m EXCEPT !.conns[c] = cn1]]
  ELSE IF pk.t = "PUBACK" THEN
    LET un == Unacked(m, 1)
        inorder == un # <<>> /\ m.msgs[un[1]].id = pk.id /\ pk.bad = ""
    IN [acc EXCEPT !.m = [m EXCEPT !.conns[c] = cn1, !.msgs = IF inorder THEN [@ EXCEPT ![un[1]].acked = TRUE] ELSE @]]
  ELSE IF pk.t = "PUBREC" THEN
    LET un == SelectSeq(m.order2, LAMBDA t : ~m.msgs[t].rec /\ ~m.msgs[t].deleted)
        inorder == un # <<>> /\ m.msgs[un[1]].id = pk.id /\ pk.bad = ""
    IN [acc EXCEPT !.m = [m EXCEPT !.conns[c] = cn1, !.msgs = IF inorder THEN [@ EXCEPT ![un[1]].rec = TRUE] ELSE @]]
  ELSE IF pk.t = "PUBCOMP" THEN
    LET un == Unacked(m, 2)
        inorder == un # <<>> /\ m.msgs[un[1]].id = pk.id /\ m.msgs[un[1]].rec /\ pk.bad = ""
    IN [acc EXCEPT !.m = [m EXCEPT !.conns[c] = cn1, !.msgs = IF inorder THEN [@ EXCEPT ![un[1]].acked = TRUE] ELSE @]]
  ELSE IF pk.t = "SUBACK" \/ pk.t = "UNSUBACK" THEN
    [acc EXCEPT !.m = [m EXCEPT !.conns[c] = cn1, !.sacksRead = Put(@, pk.id, pk.codes)]]
  ELSE IF pk.t = "PINGRESP" THEN [acc EXCEPT !.m = [m EXCEPT !.conns[c] = cn1, !.pongs = @ + 1]]
  ELSE IF pk.t = "PUBREL" THEN
    [acc EXCEPT !.m = [m EXCEPT !.conns[c] = cn1,
                              !.inb = IF Has(m.inbId, pk.id) THEN [@ EXCEPT ![m.inbId[pk.id]].cycleEnded = TRUE] ELSE @]]
  ELSE [acc EXCEPT !.m = [m EXCEPT !.conns[c] = cn1]]

(* Deadline expiries are tolerated only when bytes arrived since the previous one: after two       *)
(* expiries in a row without a byte in between the client must give up on that connection (C10). *)
OnRead(m, e) ==
  IF ~Has(m.conns, e.c) THEN R(m, {"Harness_UnknownConn"}) ELSE
  LET acc == FoldLeft(OnReadPacket, [m |-> m, fails |-> {}, c |-> e.c], e.pk)
      prev == IF Has(m.stalls, e.c) THEN m.stalls[e.c] ELSE 0
      now == IF e.err = "timeout" /\ e.n = 0 THEN prev + 1 ELSE 0
  IN R([acc.m EXCEPT !.stalls = Put(@, e.c, now), !.garbled = @ \/ e.ferr # ""],
       acc.fails \cup If(e.err \in {"timeout-unarmed", "empty"}, "Harness_BadOutcome")
                 \cup If(prev >= 2, "C10_StallNoticed"))

(* ---------------------------------------------------------------------- *)
(* broker side                                                             *)

OnBrokerSend(m0, e) ==
  LET pk == e.pk
      m == IF pk.t = "PUBLISH" /\ m0.frame /\ ~pk.dup THEN [m0 EXCEPT !.sentSeq = Append(@, <<pk.len, pk.sum>>)] ELSE m0
  IN
  IF pk.t = "SUBACK" THEN R([m EXCEPT !.sacks = Put(@, pk.id, pk.codes)], {})
  ELSE IF pk.t = "PUBLISH" /\ pk.qos = 0 THEN R([m EXCEPT !.sent0 = @ \cup {pk.tag}], {})
  ELSE IF pk.t = "PUBLISH" /\ pk.qos > 0 THEN
    \* a delivery (or redelivery) to the client: one cycle per identifier until PUBACK / PUBCOMP
    LET fresh == ~Has(m.inb, pk.tag)
        rec == IF fresh THEN [qos |-> pk.qos, tag |-> pk.tag, id |-> pk.id, returned |-> 0, owned |-> FALSE, cycleEnded |-> FALSE,
                              acks |-> 0, recW |-> FALSE, owed |-> FALSE, done |-> FALSE, dupSkipped |-> FALSE, sends |-> 1, ownedGen |-> 0]
               ELSE [m.inb[pk.tag] EXCEPT !.sends = @ + 1]
        \* an identifier reused although a retransmission of its previous cycle may still be in flight:
        \* acknowledgements for it cannot be attributed to a cycle any more
        stale == fresh /\ Has(m.inbId, pk.id) /\ m.inb[m.inbId[pk.id]].sends >= 2
    IN R([m EXCEPT !.inb = Put(@, pk.tag, rec), !.inbId = Put(@, pk.id, pk.tag), !.ambig = IF stale THEN @ \cup {pk.id} ELSE @], {})
  ELSE R(m, {})

OnBrokerRecv(m, e) ==
  LET pk == e.pk IN
  IF pk.t \in {"PUBACK", "PUBCOMP"} /\ Has(m.inbId, pk.id) THEN R([m EXCEPT !.inb[m.inbId[pk.id]].done = TRUE], {})
  ELSE R(m, {})

OnDeliver(m, e) ==
  IF Has(m.msgs, e.tag) THEN
    R([m EXCEPT !.msgs[e.tag].deliv = @ + 1],
      If(e.qos = 2 /\ m.msgs[e.tag].deliv >= 1 /\ ~m.hostile /\ m.damaged = {}, "C03_ExactlyOnceDelivery"))
  ELSE R(m, {})

(* ---------------------------------------------------------------------- *)
(* connection life cycle, signals                                          *)

OnDial(m, e) ==
  IF e.c = 0 THEN R([m EXCEPT !.lastFail = TRUE, !.attemptOpen = TRUE, !.down = "yes"], {})
  ELSE LET owed == {t \in DOMAIN m.msgs : m.msgs[t].saved /\ ~m.msgs[t].deleted}
           owedRel == {t \in owed : m.msgs[t].relSaved}
       IN R([m EXCEPT !.conns = Put(@, e.c, NewConn(owed, owedRel)), !.cur = e.c, !.attemptOpen = TRUE], {})

OnWire(m, c, t) ==
  \E i \in DOMAIN m.conns[c].pk :
     LET pk == m.conns[c].pk[i] IN
       \/ pk.t = "PUBLISH" /\ pk.tag = t /\ pk.qos > 0
       \/ pk.t = "PUBREL" /\ pk.id = m.msgs[t].id

ResendList(m, c, level) ==
  \* what the read routine wrote for this level on c, as <<type, id>>
  LET sel == SelectSeq(m.conns[c].pk, LAMBDA pk : (pk.t = "PUBLISH" /\ pk.qos = level) \/ (pk.t = "PUBREL" /\ level = 2))
  IN [i \in DOMAIN sel |-> <<sel[i].t, sel[i].id>>]
IsPrefixOf(a, b) == Len(a) <= Len(b) /\ \A i \in DOMAIN a : a[i] = b[i]

OnSig(m, e) ==
  LET both == If(e.online /\ e.offline, "C12_Signals")
             \cup If(m.closeRet /\ e.online, "C12_Signals")
      c == m.cur
      resent == IF e.online /\ ~m.online /\ c # 0 /\ Has(m.conns, c)
                THEN If(\E t \in m.conns[c].owed : ~m.msgs[t].deleted /\ ~m.msgs[t].acked /\ ~OnWire(m, c, t),
                        "C01_ResentOnEveryConnection")
                ELSE {}
      exact == IF e.online /\ ~m.online /\ m.awaitResend /\ c # 0 /\ Has(m.conns, c) /\ m.damaged = {}
               THEN If(~IsPrefixOf(m.pend1, ResendList(m, c, 1)), "C02_PendingExact")
                    \cup If(~IsPrefixOf(m.pend2, ResendList(m, c, 2)), "C02_PendingExact")
                    \cup If(~IsPrefixOf(m.pend1, ResendList(m, c, 1)) \/ ~IsPrefixOf(m.pend2, ResendList(m, c, 2)), "C05_ResendInAcceptOrder")
               ELSE {}
      relowed == IF e.online /\ ~m.online /\ c # 0 /\ Has(m.conns, c)
                 THEN If(\E t \in m.conns[c].owedRel : ~m.msgs[t].deleted /\ ~m.msgs[t].acked
                                                     /\ ~(\E i \in DOMAIN m.conns[c].pk : m.conns[c].pk[i].t = "PUBREL" /\ m.conns[c].pk[i].id = m.msgs[t].id),
                         "C03_RelUntilComp")
                 ELSE {}
  IN R([m EXCEPT !.online = e.online, !.offline = e.offline,
                 !.awaitResend = IF e.online THEN FALSE ELSE @,
                 !.attemptOpen = IF e.online THEN FALSE ELSE @,
                 !.down = IF e.online THEN "no" ELSE @,
                 !.downSure = IF e.online THEN FALSE ELSE @,
                 !.lastFail = IF e.online THEN FALSE ELSE @],
       both \cup resent \cup exact \cup relowed)

OnConnClose(m, e) ==
  \* the client closing the connection of an open attempt: the attempt failed (ErrDown may follow at once)
  IF Has(m.conns, e.c) THEN R([m EXCEPT !.conns[e.c].closed = TRUE, !.down = IF m.attemptOpen THEN "yes" ELSE @,
                                        \* closed before the application asked for it: the client's own reaction
                                        !.conns[e.c].closedByClient = @ \/ ~m.closeCalled], {}) ELSE R(m, {})

(* ---------------------------------------------------------------------- *)
(* exchange channels                                                       *)

OnExch(m, e) ==
  IF ~Has(m.msgs, e.tag) THEN R(m, {"C01_ExchangeForUnknown"}) ELSE
  LET ms == m.msgs[e.tag] IN
  IF e.v = "closed" THEN
    R([m EXCEPT !.msgs[e.tag].exc = "closed"],
      If(~ms.acked /\ ~m.garbled, "C01_NoForgedCompletion") \cup If(ms.exAfterClose, "C12_Exchanges"))
  ELSE
    LET closedErr == "closed" \in RangeOf(e.err)
        fails == If(ms.exc = "closed", "C12_Exchanges")
              \cup If(RangeOf(e.err) \cap {"down", "submit", "closed"} = {}, "C14_DocumentedClass")
              \cup If(~closedErr /\ ms.exerrs >= 1 /\ ms.wgen = m.gen /\ FALSE, "C01_OneSubmissionError")
    IN R([m EXCEPT !.msgs[e.tag].exerrs = @ + 1, !.msgs[e.tag].exAfterClose = @ \/ closedErr], fails)

(* ---------------------------------------------------------------------- *)
(* API calls                                                               *)

Persisted == {"PublishAtLeastOnce", "PublishAtLeastOnceRetained", "PublishExactlyOnce", "PublishExactlyOnceRetained"}
Aux == {"end", "timeout", "netclosed", "hard", "eof", "proto"}
Allowed(meth) ==
  CASE meth \in {"Publish", "PublishRetained"} -> {"closed", "down", "canceled", "deny", "submit"}
    [] meth \in {"Subscribe", "SubscribeLimitAtMostOnce", "SubscribeLimitAtLeastOnce", "Unsubscribe"} ->
         {"closed", "down", "max", "canceled", "deny", "submit", "break", "abandoned", "suberr"}
    [] meth = "Ping" -> {"closed", "down", "max", "canceled", "submit", "break", "abandoned"}
    [] meth = "Disconnect" -> {"closed", "down", "canceled", "submit"}
    [] meth \in Persisted -> {"closed", "max", "deny", "store"}
    [] OTHER -> {"closed", "down", "max", "canceled", "deny", "submit", "break", "abandoned", "suberr", "store",
                 "refused", "big", "other"} \cup Aux
NotSubmitted == {"closed", "down", "max", "canceled", "deny"}

OnCall(m, e) ==
  LET rec == [m |-> e.m, tag |-> e.tag, wrote |-> 0, reqid |-> 0, afterClose |-> m.closeRet, quit |-> e.quit,
              filters |-> e.filters, pongs0 |-> m.pongs, pongsW |-> -1]
      m1 == [m EXCEPT !.calls = Put(@, e.p, rec)]
  IN
  IF e.m \in {"Close", "Disconnect"} THEN R([m1 EXCEPT !.closeCalled = TRUE], {})
  ELSE IF e.m = "ReadAll" THEN R([m1 EXCEPT !.bigPending = -1], {})
  ELSE IF e.m = "ReadSlices" /\ m.frame /\ m.bigPending >= 0 THEN
    \* the previous BigMessage was skipped: only its size is known
    R([m1 EXCEPT !.retSeq = Append(@, <<m.bigPending, 0>>), !.bigPending = -1], {})
  ELSE IF e.m = "ReadSlices" THEN
    \* the application takes ownership of what the previous call returned
    R([m1 EXCEPT !.held = {},
                 !.inb = [i \in DOMAIN @ |-> IF i \in m.held THEN [@[i] EXCEPT !.owned = TRUE, !.owed = TRUE, !.ownedGen = m.gen] ELSE @[i]]], {})
  ELSE R(m1, {})

Failing(filt, codes) == SelectSeq([i \in DOMAIN filt |-> IF i <= Len(codes) /\ codes[i] = 128 THEN filt[i] ELSE ""], LAMBDA s : s # "")

OnRet(m, e) ==
  LET cls == RangeOf(e.err)
      meth == e.m
      cl == IF Has(m.calls, e.p) THEN m.calls[e.p]
            ELSE [m |-> meth, tag |-> 0, wrote |-> 0, reqid |-> 0, afterClose |-> FALSE, quit |-> "", filters |-> <<>>, pongs0 |-> 0, pongsW |-> -1]
      main == cls \ Aux
      common ==
           \* Backoff returns nil exactly when a retry is not applicable: IsDeny, IsEnd, SubscribeError
           If(e.bo # "" /\ ((e.bo = "nil") # (cls \cap {"deny", "end", "suberr"} # {})), "C14_BackoffNilIffPermanent")
        \cup If(meth \notin {"ReadSlices", "ReadAll", "Close"} /\ main # {} /\ ~(main \subseteq Allowed(meth)), "C14_DocumentedClass")
        \cup If(meth \notin {"ReadSlices", "ReadAll", "Close"} /\ cls # {} /\ main = {}, "C14_DocumentedClass")
        \cup If(meth \notin Persisted /\ meth \notin {"ReadSlices", "ReadAll", "Close", "Disconnect"}
                 /\ main \cap NotSubmitted # {} /\ cl.wrote > 0, "C14_NotSubmittedMeansNoByte")
        \cup If(meth \notin {"ReadSlices", "ReadAll", "Close", "Disconnect"} /\ cls = {} /\ cl.wrote = 0 /\ meth \notin Persisted,
                "C08_SuccessMeansComplete")
        \cup If(main \cap {"canceled", "abandoned"} # {} /\ cl.quit \in {"", "nil"}, "C14_QuitClasses")
        \cup If("deny" \in cls /\ "end" \in cls, "C14_DenyEndDisjoint")
        \cup If(cl.afterClose /\ meth \notin {"ReadAll", "Close"} /\ "closed" \notin cls /\ "deny" \notin cls, "C12_ErrClosedAfter")
        \cup If("abandoned" \in cls /\ cl.wrote = 0, "C14_AbandonedMeansSubmitted")
        \* judged on what held when the request took the write semaphore (hook lw.got), gated runs only
        \cup If("down" \in cls /\ Has(m.lwGot, e.p) /\ m.lwGot[e.p].down = "no"
                 /\ meth \in {"Publish", "PublishRetained", "Subscribe", "SubscribeLimitAtMostOnce",
                              "SubscribeLimitAtLeastOnce", "Unsubscribe", "Ping"}, "C18_WaitThenDown")
      m0 == [m EXCEPT !.calls = [p \in DOMAIN @ \ {e.p} |-> @[p]], !.lwGot = [p \in DOMAIN @ \ {e.p} |-> @[p]]]
  IN
  IF meth \in Persisted THEN
    LET t == e.tag
        known == Has(m.msgs, t) /\ m.msgs[t].saved /\ m.msgs[t].gen = m.gen
    IN IF cls = {} THEN R([m0 EXCEPT !.msgs = IF known THEN [@ EXCEPT ![t].ret = "ok"] ELSE @],
                          common \cup If(~known, "C01_AcceptedIsSaved"))
       ELSE R([m0 EXCEPT !.refused = @ \cup {t}],
              common \cup If(known, "C14_PersistErrorNotEnqueued")
                     \cup If("max" \in cls /\ Len(Pending(m, e.level)) < (IF e.level = 1 THEN m.amax ELSE m.emax)
                             /\ FALSE, "C17_ErrMaxOnlyWhenFull"))
  ELSE IF meth \in {"Subscribe", "SubscribeLimitAtMostOnce", "SubscribeLimitAtLeastOnce", "Unsubscribe"} THEN
    LET id == cl.reqid
        answered == id # 0 /\ Has(m.sacksRead, id)
        sent == IF id # 0 /\ Has(m.sacks, id) THEN m.sacks[id] ELSE <<>>
        expectFail == IF meth = "Unsubscribe" THEN <<>> ELSE Failing(cl.filters, sent)
        own == If(cls = {} /\ ~answered, "C11_OwnResponse")
            \cup If(cls = {} /\ answered /\ ~m.hostile /\ expectFail # <<>>, "C11_OwnResponse")
            \cup If("suberr" \in cls /\ (~answered \/ (~m.hostile /\ e.failed # expectFail)), "C11_OwnResponse")
        Drop(f) == IF id # 0 /\ Has(f, id) THEN [k \in DOMAIN f \ {id} |-> f[k]] ELSE f
        m1 == [m0 EXCEPT !.subs = Drop(@), !.sacks = Drop(@), !.sacksRead = Drop(@)]
    IN R(m1, common \cup own)
  ELSE IF meth = "Ping" THEN
    \* a Ping that reports success was answered: a PINGRESP reached the client after its own PINGREQ went out
    \* (not one that was read before: that one answers an earlier request of somebody else)
    R(m0, common \cup If(cls = {} /\ m.pongs = cl.pongs0, "C11_OwnResponse")
                 \cup If(cls = {} /\ ~m.hostile /\ (cl.pongsW < 0 \/ m.pongs = cl.pongsW), "C11_OwnResponse"))
  ELSE IF meth = "ReadSlices" THEN
    LET isClosed == "closed" \in cls
        got == (e.got \/ "big" \in cls) /\ e.tag # 0
        \* which inbound delivery does this return belong to: the oldest not yet returned in this cycle with that tag
        id == IF Has(m.inb, e.tag) THEN e.tag ELSE 0   \* inbound deliveries are kept per message tag
        \* suppression is owed from the moment the marker Save succeeded (DESIGN appendix C)
        \* and, within one process, from the moment the application took ownership (no stop in between)
        again == got /\ id # 0 /\ m.inb[id].qos = 2 /\ m.inb[id].returned >= 1 /\ ~m.inb[id].cycleEnded
                 /\ (m.inb[id].id \in m.marks \/ (m.inb[id].owned /\ m.inb[id].ownedGen = m.gen)
                     \* ... and once the client has written the PUBREC of this cycle (it does so only with the marker saved)
                     \/ (m.inb[id].recW /\ m.damaged = {} /\ ~m.faulty))
        m1 == [m0 EXCEPT !.retSeq = IF m.frame /\ e.got THEN Append(@, <<e.len, e.sum>>) ELSE @,
                         !.bigPending = IF m.frame /\ "big" \in cls THEN e.bigsize ELSE @,
                         !.rsClosed = @ \/ isClosed,
                         \* an error while a connect attempt was open: the attempt failed (ErrDown from now on);
                         \* otherwise an established connection was lost (requests wait for the next attempt)
                         !.down = IF cls # {} /\ ~isClosed /\ "big" \notin cls THEN (IF m.attemptOpen THEN "yes" ELSE "no") ELSE @,
                         !.attemptOpen = IF cls # {} /\ "big" \notin cls THEN FALSE ELSE @,
                         !.downSure = IF cls # {} /\ ~isClosed /\ "big" \notin cls THEN m.attemptOpen ELSE @,
                         !.held = IF got /\ id # 0 THEN {id} ELSE {},
                         !.inb = IF got /\ id # 0 THEN [@ EXCEPT ![id].returned = @ + 1] ELSE @,
                         !.relDone = IF got /\ id # 0 THEN @ \ {m.inb[id].id} ELSE @]
        \* the owed acknowledgement goes out at the start of the next invocation, before anything else is
        \* read: the same message cannot come back unacknowledged once ownership was taken (same process)
        unacked == got /\ id # 0 /\ m.inb[id].qos > 0 /\ m.inb[id].returned >= 1 /\ m.inb[id].owned
                   /\ m.inb[id].ownedGen = m.gen /\ m.inb[id].acks = 0
    IN R(m1, If(again, "C04_OncePerCycle") \cup If(unacked, "C07_AckBeforeRedelivery")
             \cup If(cl.afterClose /\ ~isClosed, "C12_ErrClosedAfter")
             \* a protocol-violation error with nothing but a valid accepting CONNACK read on the connection: the
             \* CONNACK itself was turned down
             \cup If("proto" \in cls /\ ~m.hostile /\ m.cur # 0 /\ Has(m.conns, m.cur) /\ m.conns[m.cur].connack = "ok"
                      /\ m.conns[m.cur].nread = 1, "C18_AcceptingConnackEstablishes")
             \cup If(got /\ id = 0 /\ e.tag \notin m.sent0 /\ ~m.hostile /\ ~m.frame, "C06_ReturnedEqualsSent")
             \* a BigMessage whose Size matches no message the broker sent
             \cup If("big" \in cls /\ e.tag = 0 /\ ~m.hostile /\ ~m.frame, "C06_ReturnedEqualsSent"))
  ELSE IF meth \in {"Close", "Disconnect"} THEN
    R([m0 EXCEPT !.closeRet = TRUE], common)
  ELSE IF meth = "ReadAll" THEN
    R([m0 EXCEPT !.retSeq = IF m.frame /\ cls = {} THEN Append(@, <<e.len, e.sum>>) ELSE @], common)
  ELSE R(m0, common)

(* ---------------------------------------------------------------------- *)
(* stop / adopt / damage / end of run                                      *)

PendList(m, level) ==
  LET p == Pending(m, level)
  IN [i \in DOMAIN p |-> <<IF m.msgs[p[i]].relSaved THEN "PUBREL" ELSE "PUBLISH", m.msgs[p[i]].id>>]

OnStop(m, e) ==
  R([m EXCEPT !.pend1 = PendList(m, 1), !.pend2 = PendList(m, 2), !.calls = <<>>, !.online = FALSE, !.offline = TRUE,
              !.closeRet = FALSE, !.rsClosed = FALSE, !.cur = 0, !.held = {}, !.nstops = @ + 1, !.subs = <<>>,
              !.last1 = IF PendList(m, 1) = <<>> THEN -1 ELSE @, !.last2 = IF PendList(m, 2) = <<>> THEN -1 ELSE @,
              !.everEstab = TRUE, !.unkPartial = FALSE, !.attemptOpen = FALSE, !.down = "no",
              !.inb = [i \in DOMAIN @ |-> [@[i] EXCEPT !.owed = FALSE]]], {})

OnAdopt(m, e) ==
  R([m EXCEPT !.gen = e.gen, !.awaitResend = TRUE, !.altered = {}],
    If(e.nwarn > 0 /\ ~m.faulty /\ m.damaged = {}, "C02_NoWarnings")
    \cup If(e.fatal /\ ~m.faulty, "C16_AdoptSucceeds")
    \cup If(e.fatal /\ ~m.faulty /\ m.damaged = {}, "C02_AdoptReturnsClient")
    \cup If(m.altered # {} /\ e.nwarn < Cardinality(m.altered) /\ ~e.fatal, "C16_Warned"))

OnDamage(m, e) ==
  R([m EXCEPT !.damaged = IF e.present THEN @ \cup {e.key} ELSE @,
              !.altered = IF e.present /\ e.how \in {"flip", "trunc"} /\ (LevelOfKey(e.key) > 0 \/ e.key >= MarkFlag) THEN @ \cup {e.key}
                          ELSE IF e.how = "remove" THEN @ \ {e.key} ELSE @,
              \* a lost or unusable marker ends the obligation to suppress the redelivery (C04 does not speak about damage)
              !.marks = IF e.present /\ e.key >= MarkFlag THEN @ \ {e.key - MarkFlag} ELSE @], {})

OnStuck(m, e) ==
  LET meth == IF Has(m.calls, e.p) THEN m.calls[e.p].m ELSE e.m
      name0 == IF m.damaged # {} THEN "C16_CanConnectAndReceive"
              ELSE IF IsReader(e.p) THEN "C10_ReaderProgress"
              ELSE IF meth \in {"Close", "Disconnect"} THEN "C12_Returns"
              ELSE IF meth \in {"Subscribe", "SubscribeLimitAtMostOnce", "SubscribeLimitAtLeastOnce", "Unsubscribe", "Ping"} THEN "C11_Returns"
              ELSE IF meth \in Persisted THEN "C17_ErrMaxNoBlock"
              ELSE IF meth \in {"Publish", "PublishRetained"} THEN "C10_PendingReleased"
              ELSE "C12_Returns"
      \* a request that is stuck while the client was closed falls under C12 as well
      name == name0
  IN R(m, {name} \cup If(~IsReader(e.p) /\ meth \notin {"Close", "Disconnect"} /\ ~m.closeCalled, "C10_PendingReleased")
                 \cup If(m.closeCalled /\ e.phase \in {"close", "loop"}, "C12_Returns"))

OnFinal(m, e) ==
  LET drained == ~e.diverged \/ TRUE
      left == {k \in RangeOf(e.keys) : LevelOfKey(k) > 0}
      lost == {t \in DOMAIN m.msgs : m.msgs[t].ret = "ok" /\ m.msgs[t].deliv = 0 /\ ~m.hostile /\ m.damaged = {}}
      unackedIn == {i \in DOMAIN m.inb : m.inb[i].returned > 0 /\ ~m.inb[i].done /\ ~m.hostile}
      \* a delivery whose handshake completed although ReadSlices never returned the message
      swallowed == {i \in DOMAIN m.inb : m.inb[i].returned = 0 /\ m.inb[i].done /\ ~m.hostile /\ m.inb[i].id \notin m.ambig /\ ~m.frame}
      sameSeq == Len(m.retSeq) = Len(m.sentSeq)
                 /\ \A i \in DOMAIN m.retSeq : m.retSeq[i][1] = m.sentSeq[i][1] /\ (m.retSeq[i][2] = 0 \/ m.retSeq[i][2] = m.sentSeq[i][2])
      notReset == {c \in DOMAIN m.conns : m.conns[c].mustReset /\ ~m.conns[c].closedByClient}
  IN R(m, If(m.phase = "epi" /\ m.closeRet /\ e.leaks # <<>>, "C12_NoLeak")
          \cup If(notReset # {}, "C13_ResetOnViolation")
          \* framing runs: whatever the cuts and progress-making pauses, exactly the PUBLISH packets sent, in order, no reset
          \cup If(m.frame /\ (e.reset \/ ~sameSeq), "C06_ReturnedEqualsSent")
          \cup If(m.phase = "epi" /\ m.closeRet /\ e.openconns # <<>>, "C12_NoLeak")
          \cup If(m.phase = "epi" /\ left # {} /\ ~m.hostile /\ m.damaged = {} /\ ~m.closedEarly, "C01_Drained")
          \cup If(m.phase = "epi" /\ lost # {} /\ ~m.closedEarly, "C01_Delivered")
          \cup If(m.phase = "epi" /\ unackedIn # {} /\ ~m.closedEarly, "C07_ReturnedEventuallyAcked")
          \cup If(swallowed # {}, "C04_ReturnedInCycle")
          \cup If(m.phase = "epi" /\ m.rsClosed
                  /\ (\E t \in DOMAIN m.msgs : m.msgs[t].gen = m.gen /\ m.msgs[t].ret = "ok" /\ m.msgs[t].exc = "open"
                                                 /\ ~m.msgs[t].exAfterClose), "C12_Exchanges"))

(* ---------------------------------------------------------------------- *)

(* Hook sites as observation points.  A request that took the write semaphore (lw.got) after a *)
(* connect attempt had failed for good must find connDown and return ErrDown; reaching lw.wait   *)
(* means it found "pending" (C18).                                                               *)
OnGate(m, e) ==
  IF e.site = "lw.got" THEN R([m EXCEPT !.lwGot = Put(@, e.p, [sure |-> m.downSure, down |-> m.down])], {})
  ELSE IF e.k = "read" /\ e.mid /\ ~e.armed THEN R(m, If(~m.nopause, "C13_BoundedWait"))
  ELSE IF e.site = "lw.wait" THEN R(m, If(Has(m.lwGot, e.p) /\ m.lwGot[e.p].sure /\ m.downSure, "C18_WaitThenDown"))
  ELSE R(m, {})

ObsStep(m, e) ==
  CASE e.e = "begin" -> R([Init0 EXCEPT !.gen = 1, !.amax = IF e.amax < 0 \/ e.amax > IdMod THEN IdMod ELSE e.amax,
                                       !.emax = IF e.emax < 0 \/ e.emax > IdMod THEN IdMod ELSE e.emax, !.clean = e.clean,
                                       !.frame = e.frame, !.nopause = e.nopause], {})
    [] e.e = "snap" -> R(m, IF m.phase = "epi" /\ ~m.closedEarly /\ m.damaged = {} /\ ~m.hostile
                                  /\ (e.q1 # Len(Pending(m, 1)) \/ e.q2 # Len(Pending(m, 2)))
                               THEN {"C17_QueueMatchesPending"} \cup If(m.refused # {}, "C14_PersistErrorNotEnqueued") ELSE {})
    [] e.e = "gate" -> OnGate(m, e)
    [] e.e = "st" -> OnStore(m, e)
    [] e.e = "cw" -> OnWrite(m, e)
    [] e.e = "cr" -> OnRead(m, e)
    [] e.e = "bs" -> OnBrokerSend(m, e)
    [] e.e = "br" -> OnBrokerRecv(m, e)
    [] e.e = "bsraw" -> R([m EXCEPT !.hostile = TRUE,
                                    !.conns = IF e.violation /\ Has(@, e.c) THEN [@ EXCEPT ![e.c].mustReset = TRUE] ELSE @], {})
    [] e.e = "deliver" -> OnDeliver(m, e)
    [] e.e = "dial" -> OnDial(m, e)
    [] e.e = "sig" -> OnSig(m, e)
    [] e.e = "cclose" -> OnConnClose(m, e)
    [] e.e = "ex" -> OnExch(m, e)
    [] e.e = "call" -> OnCall(m, e)
    [] e.e = "ret" -> OnRet(m, e)
    [] e.e = "stop" -> OnStop(m, e)
    [] e.e = "adopt" -> OnAdopt(m, e)
    [] e.e = "damage" -> OnDamage(m, e)
    [] e.e = "epilogue" -> R([m EXCEPT !.phase = "epi", !.diverged = e.diverged, !.closedEarly = m.closeCalled], {})
    [] e.e = "stuck" -> OnStuck(m, e)
    \* the healed epilogue ended with transfers still pending: for one at the PUBREL stage that means the PUBREL was not
    \* retransmitted until its PUBCOMP arrived
    [] e.e = "undrained" -> R(m, If(~m.closedEarly, "C01_Drained")
                               \cup If(~m.closedEarly /\ m.damaged = {} /\ ~m.hostile
                                      /\ (\E t \in DOMAIN m.msgs : m.msgs[t].level = 2 /\ m.msgs[t].relSaved /\ ~m.msgs[t].deleted),
                                      "C03_RelUntilComp"))
    [] e.e = "panic" -> R(m, {"C13_NoPanic"})
    \* (PauseTimeout zero switches the bound off: the Config says so)
    [] e.e = "nodeadline" -> R(m, If(~m.nopause, "C13_BoundedWait"))
    [] e.e = "harness-panic" -> R(m, {"Harness_Panic"})
    \* a record of an earlier incarnation that had got as far as the PUBREC: the broker forwarded that message then
    [] e.e = "seedrec" -> IF Has(m.msgs, e.tag) THEN R([m EXCEPT !.msgs[e.tag].rec = TRUE, !.msgs[e.tag].deliv = 1], {}) ELSE R(m, {})
    \* ReadBackoff after an error of ReadSlices: nil exactly for ErrClosed, else closed within the configured bounds
    [] e.e = "backoff" -> R(m, If(e.nil # e.closed, "C14_BackoffNilIffPermanent")
                              \cup If(~e.closed /\ ~e.nil /\ e.late, "C10_BackoffWithinBounds"))
    [] e.e = "final" -> OnFinal(m, e)
    [] OTHER -> R(m, {})
=============================================================================
