----------------------------- MODULE MC_client -----------------------------
(* Bounded instances of MqttClient; exports the stimulus of every          *)
(* transition (a transition cover) or of a seeded sample as behaviours.    *)
EXTENDS MqttClient, Json

CONSTANT SampleK

P1(tag) == [m |-> "PublishAtLeastOnce", tag |-> tag]
P2(tag) == [m |-> "PublishExactlyOnce", tag |-> tag]
CloseOp == [m |-> "Close", tag |-> 0]
PingOp == [m |-> "Ping", tag |-> 0]
SubOp == [m |-> "Subscribe", tag |-> 0]
P0(tag) == [m |-> "Publish", tag |-> tag]

NoIn == <<>>
In012 == <<[qos |-> 1, tag |-> 501], [qos |-> 2, tag |-> 502], [qos |-> 0, tag |-> 503]>>
In22 == <<[qos |-> 2, tag |-> 501], [qos |-> 2, tag |-> 502]>>
ScriptNone == ("w1" :> <<>>)
ScriptOne == ("w1" :> <<P1(1)>>)
ScriptQ2  == ("w1" :> <<P2(1)>>)
ScriptTwo == ("w1" :> <<P1(1), P2(2)>>) @@ ("w2" :> <<P1(3)>>)
ScriptClose == ("w1" :> <<P1(1)>>) @@ ("c1" :> <<CloseOp>>)
ScriptReq == ("w1" :> <<P0(1), PingOp>>) @@ ("w2" :> <<SubOp>>)
ScriptPings == ("w1" :> <<PingOp>>) @@ ("w2" :> <<PingOp, P0(2)>>)
ScriptReqClose == ("w1" :> <<PingOp>>) @@ ("w2" :> <<SubOp>>) @@ ("c1" :> <<CloseOp>>)
ScriptMixReq == ("w1" :> <<P1(1)>>) @@ ("w2" :> <<P0(2), SubOp>>)
ScriptF4 == ("w1" :> <<P2(1)>>) @@ ("w2" :> <<P0(2)>>)
ScriptMix == ("w1" :> <<P1(1), P2(2)>>) @@ ("w2" :> <<P2(3)>>) @@ ("c1" :> <<CloseOp>>)

ASSUME PrintT(<<"SCRIPT", ToJson(Script)>>)
Terminal == \A p \in Procs : MovesOf(st, p) = {}
\* one behaviour per transition of the bounded model (or a seeded sample of them)
ExportStep ==
  (hist' # hist /\ (SampleK = 1 \/ RandomElement(1..SampleK) = 1)) =>
     PrintT(<<"CASE", ToJson([steps |-> hist'])>>)
=============================================================================
