----------------------------- MODULE MC_client -----------------------------
(* Bounded instances of MqttClient; exports the stimulus of every          *)
(* transition (a transition cover) or of a seeded sample as behaviours.    *)
EXTENDS MqttClient, Json

CONSTANT SampleK

P1(tag) == [m |-> "PublishAtLeastOnce", tag |-> tag, quit |-> "nil"]
P2(tag) == [m |-> "PublishExactlyOnce", tag |-> tag, quit |-> "nil"]
CloseOp == [m |-> "Close", tag |-> 0, quit |-> "nil"]
PingOp == [m |-> "Ping", tag |-> 0, quit |-> "nil"]
SubOp == [m |-> "Subscribe", tag |-> 0, quit |-> "nil"]
DiscOp == [m |-> "Disconnect", tag |-> 0, quit |-> "nil"]
UnsubOp == [m |-> "Unsubscribe", tag |-> 0, quit |-> "nil"]
P0(tag) == [m |-> "Publish", tag |-> tag, quit |-> "nil"]
Later(op) == [op EXCEPT !.quit = "later"]

\* Persistence contents for runs that start with an adoption (key :> record)
Rec(kind, tag, sseq) == [kind |-> kind, tag |-> tag, sseq |-> sseq]
NoStore == <<>>
\* two at-least-once transfers; exactly-once: one at the PUBREL stage, three PUBLISH behind it
StoreMix == (32768 :> Rec("PUB", 11, 1)) @@ (32769 :> Rec("PUB", 12, 2))
            @@ (49152 :> Rec("REL", 21, 7)) @@ (49153 :> Rec("PUB", 22, 4)) @@ (49154 :> Rec("PUB", 23, 5)) @@ (49155 :> Rec("PUB", 24, 6))
\* both sequences straddle the 14-bit wrap of the identifiers
StoreWrap == (32768 + 16382 :> Rec("PUB", 11, 1)) @@ (32768 + 16383 :> Rec("PUB", 12, 2)) @@ (32768 :> Rec("PUB", 13, 3)) @@ (32769 :> Rec("PUB", 14, 4))
             @@ (49152 + 16383 :> Rec("REL", 21, 8)) @@ (49152 :> Rec("REL", 22, 9)) @@ (49153 :> Rec("PUB", 23, 7))
\* the step from the last PUBREL to the first PUBLISH is the wrap itself
StoreWrapB == (49152 + 16383 :> Rec("REL", 21, 3)) @@ (49152 :> Rec("PUB", 22, 1)) @@ (49152 + 1 :> Rec("PUB", 23, 2))
              @@ (32768 + 16383 :> Rec("PUB", 11, 4)) @@ (32768 :> Rec("PUB", 12, 5))
\* only PUBREL records pending
StoreRels == (49152 + 5 :> Rec("REL", 21, 3)) @@ (49152 + 6 :> Rec("REL", 22, 4))
NoIn == <<>>
In012 == <<[qos |-> 1, tag |-> 501], [qos |-> 2, tag |-> 502], [qos |-> 0, tag |-> 503]>>
In22 == <<[qos |-> 2, tag |-> 501], [qos |-> 2, tag |-> 502]>>
In2 == <<[qos |-> 2, tag |-> 501]>>
ScriptNone == ("w1" :> <<>>)
NoGen2 == [x \in {} |-> <<>>]
Gen2None == ("v2" :> <<>>)
Gen2Q1 == ("v2" :> <<P1(101)>>)
Gen2Q2 == ("v2" :> <<P2(101)>>)
ScriptQ12 == ("w1" :> <<P1(1), P2(2)>>)
ScriptQ1x5 == ("w1" :> <<P1(1), P1(2), P1(3), P1(4), P1(5)>>)
ScriptQ2x4 == ("w1" :> <<P2(1), P2(2), P2(3), P2(4)>>)
ScriptQ222 == ("w1" :> <<P2(1), P2(2), P2(3)>>)
ScriptOne == ("w1" :> <<P1(1)>>)
ScriptQ2  == ("w1" :> <<P2(1)>>)
ScriptP0 == ("w1" :> <<P0(1)>>)
ScriptTwo == ("w1" :> <<P1(1), P2(2)>>) @@ ("w2" :> <<P1(3)>>)
ScriptClose == ("w1" :> <<P1(1)>>) @@ ("c1" :> <<CloseOp>>)
ScriptReq == ("w1" :> <<P0(1), PingOp>>) @@ ("w2" :> <<SubOp>>)
ScriptPings == ("w1" :> <<PingOp>>) @@ ("w2" :> <<PingOp, P0(2)>>)
ScriptPings2 == ("w1" :> <<PingOp>>) @@ ("w2" :> <<SubOp, PingOp>>)
ScriptQuit == ("w1" :> <<Later(PingOp), PingOp>>) @@ ("w2" :> <<Later(SubOp), UnsubOp>>)
ScriptUnsub == ("w1" :> <<UnsubOp, P0(1)>>) @@ ("w2" :> <<SubOp>>)
ScriptDisc == ("w1" :> <<P1(1)>>) @@ ("c1" :> <<DiscOp>>)
ScriptDiscReq == ("w1" :> <<PingOp>>) @@ ("c1" :> <<DiscOp>>) @@ ("c2" :> <<CloseOp>>)
ScriptReqClose == ("w1" :> <<PingOp>>) @@ ("w2" :> <<SubOp>>) @@ ("c1" :> <<CloseOp>>)
ScriptMixReq == ("w1" :> <<P1(1)>>) @@ ("w2" :> <<P0(2), SubOp>>)
ScriptF4 == ("w1" :> <<P2(1)>>) @@ ("w2" :> <<P0(2)>>)
ScriptMix == ("w1" :> <<P1(1), P2(2)>>) @@ ("w2" :> <<P2(3)>>) @@ ("c1" :> <<CloseOp>>)

ASSUME PrintT(<<"SCRIPT", ToJson(Script)>>)
ASSUME PrintT(<<"SCRIPT2", ToJson(Script2)>>)
ASSUME PrintT(<<"INMSGS", ToJson(InMsgs)>>)
ASSUME PrintT(<<"INITSTORE", ToJson([k \in DOMAIN InitStore |-> InitStore[k]])>>)
ScriptNew == ("w1" :> <<P2(101), P1(102)>>)
Terminal == \A p \in Procs : MovesOf(st, p) = {}
\* one behaviour per transition of the bounded model (or a seeded sample of them)
\* (transitions after a damaged restart are rare among all transitions and are sampled twenty times as often)
\* Transitions that bring the read routine to a write of its own while the write semaphore holds no connection,
\* because a request of another goroutine failed meanwhile (the shape of F4), are few and are exported apart, with the
\* place in the read routine (flush of the owed acknowledgement, duplicate, PUBREL, PUBCOMP), for an even choice.
RareAt(s) == s.pc["rd"] = "wn.got" /\ s.loc["rd"].val \in {PENDING, DOWN}
RareStep == RareAt(st') /\ ~RareAt(st)
ExportStep ==
  /\ (hist' # hist /\ RareStep) => PrintT(<<"RARE", ToJson([steps |-> hist', kind |-> st'.loc["rd"].ctx])>>)
  /\ (hist' # hist /\ (SampleK = 1 \/ RandomElement(1..(IF st'.damaged > 0 /\ st'.stops > 0 /\ SampleK >= 20 THEN SampleK \div 20 ELSE SampleK)) = 1)) =>
       PrintT(<<"CASE", ToJson([steps |-> hist'])>>)
\* behaviours that reach a state the design forbids (used with the DEV_ switches: the specification regenerates a
\* finding, the behaviour is replayed on the real code, the monitor decides)
Detectors(s) == (IF s.strayPong THEN {"C11_PongIsOwn"} ELSE {})
ExportBad == (RecordHist /\ Detectors(st') # {} /\ Detectors(st) = {}) =>
     PrintT(<<"BAD", ToJson([inv |-> Detectors(st'), steps |-> hist'])>>)
=============================================================================
