CONSTANTS
  TopicLens = {0, 1, 2, 3, 4, 5, 127, 128, 16383, 65534, 65535, 65536}
  TopicClasses = {"ascii", "utf8_2", "utf8_3", "utf8_4", "maxcp", "nonchar", "ctrl", "nul", "surrogate", "overlong", "truncated", "toobig", "lonecont"}
  PayloadSizes = {0, 1, 100, 127, 128, 16000, 16383, 16384, 16400, 2097000, 2097151, 2097152}
  FilterCounts = {0, 1, 2, 3}
  BigSizes = {268435450, 268435451, 268435452, 268435453}
  ManyCounts = {4096, 4097}
  Thorough = TRUE
SPECIFICATION Spec
INVARIANTS C09_DenyExactlyInvalid C09_WithinLimits
CONSTRAINT Export
CHECK_DEADLOCK FALSE
