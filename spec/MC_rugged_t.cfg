CONSTANTS Alphabet = {0, 48, 130, 255} MaxLen = 3 SeqNos <- McSeqNos DamageVals <- AllBytes
SPECIFICATION Spec
INVARIANTS C15_Layout C15_RoundTrip C15_DamageDetected
CHECK_DEADLOCK FALSE
