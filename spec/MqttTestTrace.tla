--------------------------- MODULE MqttTestTrace ---------------------------
(* Judges traces recorded from the real mqtttest doubles (property C20).   *)
(* Every line is one step of MqttTest: the stimulus (double, invocation)   *)
(* drives the specification's state, the OBSERVED outcome is what goes     *)
(* into outs, and the C20 predicates are evaluated on the observation in   *)
(* every state.  A step whose observed outcome is not the one the          *)
(* specification computes is a divergence (reported, not an alarm unless a *)
(* predicate fails too).  Many traces are concatenated; "new" starts one.  *)
EXTENDS MqttTest, Json, IOUtils, SequencesExt

Trace == ndJsonDeserialize(IOEnv.VERIF_TRACE)

VARIABLES l,     \* next line
          case,  \* identifier of the current trace
          bad,   \* {<<clause, case>>} predicates found false
          div    \* {case} steps that differ from the specification
tvars == <<vars, l, case, bad, div>>

Line == Trace[l]

ClauseNames == {"C20_FailIffDeviation", "C20_StubsNeverFail", "C20_QuitMeansCanceled",
                "C20_PrivateCopies", "C20_NoPanic", "C20_ExchangeScript"}
Holds(c) ==
  CASE c = "C20_FailIffDeviation" -> C20_FailIffDeviation
    [] c = "C20_StubsNeverFail" -> C20_StubsNeverFail
    [] c = "C20_QuitMeansCanceled" -> C20_QuitMeansCanceled
    [] c = "C20_PrivateCopies" -> C20_PrivateCopies
    [] c = "C20_NoPanic" -> C20_NoPanic
    [] c = "C20_ExchangeScript" -> C20_ExchangeScript

Judge == bad' = bad \cup {<<c, case'>> : c \in {x \in ClauseNames : ~Holds(x)'}}

Compat(exp, obs) ==
  /\ exp.ret \in {"free", obs.ret}
  /\ exp.fail \in {"free", obs.fail}
  /\ exp.fatal = obs.fatal /\ exp.m = obs.m /\ exp.t = obs.t /\ exp.aliased = obs.aliased
  /\ exp.items = obs.items /\ exp.closes = obs.closes

TraceInit ==
  /\ l = 1 /\ case = 0 /\ bad = {} /\ div = {}
  /\ dbl = Double("PublishStub", <<>>, NoFix, <<>>, "nil")
  /\ phase = "clean" /\ idx = 0 /\ hist = <<>> /\ outs = <<>>

TraceNew ==
  /\ l <= Len(Trace) /\ Line.ev = "new"
  /\ dbl' = Line.dbl
  /\ phase' = IF Line.dead THEN "dead" ELSE "live"
  /\ idx' = 0 /\ hist' = <<>> /\ outs' = <<>>
  /\ case' = Line.case /\ l' = l + 1
  /\ div' = IF Line.dead # (Line.dbl.kind = "ExchangeStub" /\ ~ScriptValid(Line.dbl.script, Line.dbl.errfix))
            THEN div \cup {Line.case} ELSE div
  /\ Judge

TraceCall ==
  /\ l <= Len(Trace) /\ Line.ev = "call" /\ phase = "live"
  /\ LET c == Line.call
         r == StepOf(c)
     IN  /\ hist' = Append(hist, c)
         /\ outs' = Append(outs, Line.out)
         /\ idx' = r[2]
         /\ div' = IF Compat(r[1], Line.out) THEN div ELSE div \cup {case}
  /\ UNCHANGED <<dbl, phase, case>> /\ l' = l + 1
  /\ Judge

TraceCleanup ==
  /\ l <= Len(Trace) /\ Line.ev = "cleanup" /\ phase = "live"
  /\ phase' = "clean"
  /\ outs' = Append(outs, Line.out)
  /\ div' = IF Compat(CleanupOut, Line.out) THEN div ELSE div \cup {case}
  /\ UNCHANGED <<dbl, idx, hist, case>> /\ l' = l + 1
  /\ Judge

TraceEnd ==
  /\ l = Len(Trace) + 1
  /\ ndJsonSerialize(IOEnv.VERIF_RESULT, <<[done |-> Len(Trace), bad |-> SetToSeq(bad), div |-> SetToSeq(div)]>>)
  /\ l' = l + 1 /\ UNCHANGED <<vars, case, bad, div>>

TraceNext == TraceNew \/ TraceCall \/ TraceCleanup \/ TraceEnd
TraceSpec == TraceInit /\ [][TraceNext]_tvars
=============================================================================
