----------------------------- MODULE MonitorRun -----------------------------
(* Feeds a recorded trace (many executions, separated by "reset" lines)    *)
(* through Monitor!ObsStep and collects every clause found false.          *)
EXTENDS Monitor, Json, IOUtils

Trace == ndJsonDeserialize(IOEnv.VERIF_TRACE)

VARIABLES l, case, m, bad
mvars == <<l, case, m, bad>>

MInit == l = 1 /\ case = 0 /\ m = Init0 /\ bad = {}
MStep ==
  /\ l <= Len(Trace)
  /\ LET e == Trace[l] IN
       IF e.e = "reset" THEN case' = e.case /\ m' = Init0 /\ bad' = bad
       ELSE LET r == ObsStep(m, e) IN
              /\ m' = r.m /\ case' = case
              /\ bad' = bad \cup {<<c, case, e.seq>> : c \in r.fails}
  /\ l' = l + 1
MEnd ==
  /\ l = Len(Trace) + 1
  /\ ndJsonSerialize(IOEnv.VERIF_RESULT, <<[done |-> Len(Trace), bad |-> SetToSeq(bad), div |-> <<>>]>>)
  /\ l' = l + 1 /\ UNCHANGED <<case, m, bad>>
MSpec == MInit /\ [][MStep \/ MEnd]_mvars
=============================================================================
