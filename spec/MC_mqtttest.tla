---------------------------- MODULE MC_mqtttest ----------------------------
(* Bounded instance of MqttTest.  Besides checking the C20 predicates on   *)
(* the design, the run exports every (SampleK = 1) or a seeded sample of   *)
(* the terminal histories as stimulus for the Go harness.                  *)
EXTENDS MqttTest, Json

CONSTANT SampleK

Terminal == phase \in {"clean", "dead"} \/ Len(hist) = MaxCalls \/ (dbl.kind \in StubKinds /\ Len(hist) >= 1)
Export ==
  (Terminal /\ (SampleK = 1 \/ RandomElement(1..SampleK) = 1)) =>
     PrintT(<<"CASE", ToJson([dbl |-> dbl, calls |-> hist, cleanup |-> phase = "clean"])>>)
=============================================================================
