CONSTANTS TopicLens = {} TopicClasses = {} PayloadSizes = {} FilterCounts = {} Thorough = FALSE BigSizes = {}
SPECIFICATION JSpec
CHECK_DEADLOCK FALSE
