CONSTANTS TopicLens = {} TopicClasses = {} PayloadSizes = {} FilterCounts = {} Thorough = FALSE BigSizes = {}
  ManyCounts = {}
SPECIFICATION JSpec
CHECK_DEADLOCK FALSE
