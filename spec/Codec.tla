------------------------------- MODULE Codec -------------------------------
(***************************************************************************)
(* MQTT 3.1.1 packet grammar for the packets the client emits, as a        *)
(* relation request -> structured packet (property C09).  Strings are      *)
(* abstracted to (class, byte length); payloads to their size.  The        *)
(* remaining-length arithmetic, field order, flags and identifier spaces   *)
(* are evaluated here; the byte slicing is done by the harness's decoder.  *)
(*                                                                         *)
(* A request is one API call in a fresh online session: one transition of  *)
(* the session from "idle" to "done", emitting at most one packet.         *)
(***************************************************************************)
EXTENDS Naturals, Sequences, FiniteSets, TLC

PacketMax == 268435455
StringMax == 65535

(* Classes of byte strings.  The first group is well-formed UTF-8 without  *)
(* U+0000; MQTT tolerates control characters and non-characters.           *)
GoodClasses == {"ascii", "utf8_2", "utf8_3", "utf8_4", "maxcp", "nonchar", "ctrl"}
BadClasses  == {"nul", "surrogate", "overlong", "truncated", "toobig", "lonecont"}
Classes == GoodClasses \cup BadClasses

StringValid(s) == s.cls \in GoodClasses /\ s.len <= StringMax
TopicValid(s)  == StringValid(s) /\ s.len >= 1

RLB(n) == IF n < 128 THEN 1 ELSE IF n < 16384 THEN 2 ELSE IF n < 2097152 THEN 3 ELSE 4

PublishOps == {"Publish", "PublishRetained", "PublishAtLeastOnce", "PublishAtLeastOnceRetained",
               "PublishExactlyOnce", "PublishExactlyOnceRetained"}
SubscribeOps == {"Subscribe", "SubscribeLimitAtMostOnce", "SubscribeLimitAtLeastOnce"}
QoSOf(op) == CASE op \in {"Publish", "PublishRetained"} -> 0
               [] op \in {"PublishAtLeastOnce", "PublishAtLeastOnceRetained"} -> 1
               [] OTHER -> 2
RetainOf(op) == op \in {"PublishRetained", "PublishAtLeastOnceRetained", "PublishExactlyOnceRetained"}
LimitOf(op) == CASE op = "Subscribe" -> 2 [] op = "SubscribeLimitAtLeastOnce" -> 1 [] OTHER -> 0
IdSpace(op) == CASE op \in {"PublishAtLeastOnce", "PublishAtLeastOnceRetained"} -> 32768   \* 0x8000
                 [] op \in {"PublishExactlyOnce", "PublishExactlyOnceRetained"} -> 49152  \* 0xc000
                 [] op \in SubscribeOps -> 24576                                          \* 0x6000
                 [] op = "Unsubscribe" -> 16384                                           \* 0x4000
                 [] OTHER -> 0

SumLen(fs) == LET RECURSIVE S(_) S(i) == IF i = 0 THEN 0 ELSE fs[i].len + S(i - 1) IN S(Len(fs))

NoPacket == [t |-> "none", qos |-> 0, retain |-> FALSE, dup |-> FALSE, idspace |-> 0, topiclen |-> 0,
             len |-> 0, rlb |-> 0, size |-> 0, filtlens |-> <<>>, codes |-> <<>>, cflags |-> 0, keepalive |-> 0,
             cidlen |-> 0, wtopiclen |-> 0, wmsglen |-> 0, userlen |-> 0, passlen |-> 0]
Pk(t, rem) == [NoPacket EXCEPT !.t = t, !.rlb = RLB(rem), !.size = 1 + RLB(rem) + rem]

(* Expected result of a request: [deny, pk].                               *)
ExpectPublish(r) ==
  LET q   == QoSOf(r.op)
      rem == 2 + r.topic.len + (IF q > 0 THEN 2 ELSE 0) + r.payload
  IN  IF ~TopicValid(r.topic) \/ rem > PacketMax THEN [deny |-> TRUE, pk |-> NoPacket]
      ELSE [deny |-> FALSE,
            pk |-> [Pk("PUBLISH", rem) EXCEPT !.qos = q, !.retain = RetainOf(r.op), !.idspace = IdSpace(r.op),
                                              !.topiclen = r.topic.len, !.len = r.payload]]
ExpectSubscribe(r) ==
  LET n   == Len(r.filters)
      rem == 2 + 3 * n + SumLen(r.filters)
  IN  IF n = 0 \/ (\E i \in 1..n : ~TopicValid(r.filters[i])) \/ rem > PacketMax THEN [deny |-> TRUE, pk |-> NoPacket]
      ELSE [deny |-> FALSE,
            pk |-> [Pk("SUBSCRIBE", rem) EXCEPT !.idspace = IdSpace(r.op), !.filtlens = [i \in 1..n |-> r.filters[i].len],
                                                !.codes = [i \in 1..n |-> LimitOf(r.op)]]]
ExpectUnsubscribe(r) ==
  LET n   == Len(r.filters)
      rem == 2 + 2 * n + SumLen(r.filters)
  IN  IF n = 0 \/ (\E i \in 1..n : ~TopicValid(r.filters[i])) \/ rem > PacketMax THEN [deny |-> TRUE, pk |-> NoPacket]
      ELSE [deny |-> FALSE,
            pk |-> [Pk("UNSUBSCRIBE", rem) EXCEPT !.idspace = IdSpace(r.op), !.filtlens = [i \in 1..n |-> r.filters[i].len]]]

(* CONNECT from a Config.  will = "none" | "q0" | "q1" | "q2" (AtLeastOnce *)
(* / ExactlyOnce flags; ExactlyOnce overrides), pass.set = Password # nil. *)
ConfigValid(c) ==
  /\ StringValid(c.cid)
  /\ StringValid(c.user)
  /\ c.pass.len <= StringMax
  /\ c.wmsg <= StringMax
  /\ IF c.will # "none" THEN TopicValid(c.wtopic) ELSE StringValid(c.wtopic)
ExpectConnect(c) ==
  LET hasuser == c.user.len > 0 \/ c.pass.set
      haswill == c.will # "none"
      wq      == CASE c.will = "q1" -> 1 [] c.will = "q2" -> 2 [] OTHER -> 0
      flags   == (IF hasuser THEN 128 ELSE 0) + (IF c.pass.set THEN 64 ELSE 0)
                 + (IF haswill /\ c.wretain THEN 32 ELSE 0) + (IF haswill THEN wq * 8 + 4 ELSE 0)
                 + (IF c.clean THEN 2 ELSE 0)
      rem     == 12 + c.cid.len + (IF hasuser THEN 2 + c.user.len ELSE 0) + (IF c.pass.set THEN 2 + c.pass.len ELSE 0)
                 + (IF haswill THEN 4 + c.wtopic.len + c.wmsg ELSE 0)
  IN  IF ~ConfigValid(c) THEN [deny |-> TRUE, pk |-> NoPacket]
      ELSE [deny |-> FALSE,
            pk |-> [Pk("CONNECT", rem) EXCEPT !.cflags = flags, !.keepalive = c.keepalive, !.cidlen = c.cid.len,
                       !.wtopiclen = IF haswill THEN c.wtopic.len ELSE 0, !.wmsglen = IF haswill THEN c.wmsg ELSE 0,
                       !.userlen = IF hasuser THEN c.user.len ELSE 0, !.passlen = IF c.pass.set THEN c.pass.len ELSE 0]]

Expect(r) ==
  CASE r.op \in PublishOps -> ExpectPublish(r)
    [] r.op \in SubscribeOps -> ExpectSubscribe(r)
    [] r.op = "Unsubscribe" -> ExpectUnsubscribe(r)
    [] r.op = "Connect" -> ExpectConnect(r.cfg)
    [] r.op = "Ping" -> [deny |-> FALSE, pk |-> Pk("PINGREQ", 0)]
    [] r.op = "Disconnect" -> [deny |-> FALSE, pk |-> Pk("DISCONNECT", 0)]
    [] r.op \in {"AckQoS1", "AckQoS2", "RelQoS2", "CompQoS2"} ->
         [deny |-> FALSE, pk |-> Pk(CASE r.op = "AckQoS1" -> "PUBACK" [] r.op = "AckQoS2" -> "PUBREC"
                                      [] r.op = "RelQoS2" -> "PUBREL" [] OTHER -> "PUBCOMP", 2)]

-----------------------------------------------------------------------------
(* Request classes of the bounded model.                                   *)
CONSTANTS TopicLens, TopicClasses, PayloadSizes, FilterCounts, Thorough, BigSizes, ManyCounts

Str(c, n) == [cls |-> c, len |-> n]
Blank == [op |-> "none", topic |-> Str("ascii", 1), payload |-> 0, filters |-> <<>>,
          cfg |-> [cid |-> Str("ascii", 1), user |-> Str("ascii", 0), pass |-> [set |-> FALSE, len |-> 0],
                   will |-> "none", wtopic |-> Str("ascii", 0), wmsg |-> 0, wretain |-> FALSE,
                   keepalive |-> 0, clean |-> FALSE]]

\* a class needs a minimum length to be instantiated
MinLen(c) == CASE c \in {"ascii", "ctrl", "nul", "lonecont"} -> 1 [] c \in {"utf8_2", "overlong", "truncated"} -> 2
               [] c \in {"utf8_3", "nonchar", "surrogate"} -> 3 [] OTHER -> 4
Strings == {Str(c, n) : c \in TopicClasses, n \in TopicLens} 
TopicStrings == {s \in Strings : s.len = 0 \/ s.len >= MinLen(s.cls)}

PublishRequests ==
  {[Blank EXCEPT !.op = op, !.topic = s, !.payload = p] : op \in PublishOps, s \in TopicStrings, p \in PayloadSizes}
\* single filters over every string class; lists of several filters over a small set
SmallStrings == {s \in TopicStrings : s.cls \in {"ascii", "utf8_3", "nul", "surrogate"} /\ s.len \in {0, 1, 3, 128, 65535}}
FilterSeqs == UNION {IF n <= 1 THEN [1..n -> TopicStrings] ELSE [1..n -> SmallStrings] : n \in FilterCounts}
SubRequests ==
  {[Blank EXCEPT !.op = op, !.filters = fs] : op \in SubscribeOps \cup {"Unsubscribe"}, fs \in FilterSeqs}
Wills == {"none", "q0", "q1", "q2"}
ConnRequests ==
  {[Blank EXCEPT !.op = "Connect",
       !.cfg = [cid |-> cid, user |-> u, pass |-> pw, will |-> w, wtopic |-> wt, wmsg |-> wm, wretain |-> wr,
                keepalive |-> ka, clean |-> cl]] :
     cid \in {Str("ascii", 0), Str("ascii", 23), Str("utf8_3", 65535), Str("nul", 5), Str("ascii", 65536)},
     u \in {Str("ascii", 0), Str("ascii", 4), Str("surrogate", 3), Str("ascii", 65536)},
     pw \in {[set |-> FALSE, len |-> 0], [set |-> TRUE, len |-> 0], [set |-> TRUE, len |-> 7], [set |-> TRUE, len |-> 65536]},
     w \in Wills,
     wt \in {Str("ascii", 0), Str("ascii", 5), Str("overlong", 2)},
     wm \in {0, 9, 65536},
     wr \in BOOLEAN, ka \in {0, 4660}, cl \in BOOLEAN}
ConnWanted == {r \in ConnRequests :
                 \* prune combinations that differ only in fields a will-less Config ignores
                 /\ (r.cfg.will = "none" => r.cfg.wmsg = 0 /\ ~r.cfg.wretain)
                 /\ (Thorough \/ (r.cfg.keepalive = 0) = r.cfg.clean)}
FixedRequests == {[Blank EXCEPT !.op = op] : op \in {"Ping", "Disconnect", "AckQoS1", "AckQoS2", "RelQoS2", "CompQoS2"}}
\* the 256 MiB limit, for a few operations only (each valid case moves 256 MiB)
BigRequests == {[Blank EXCEPT !.op = op, !.topic = Str("ascii", 1), !.payload = p] :
                  op \in {"Publish", "PublishAtLeastOnce", "PublishExactlyOnceRetained"}, p \in BigSizes}
\* many filters, each of them valid, that together exceed the packet limit (4096 x 65535 bytes and more)
ManyFilterRequests == {[Blank EXCEPT !.op = op, !.filters = [i \in 1..n |-> Str("ascii", 65535)]] :
                         op \in SubscribeOps \cup {"Unsubscribe"}, n \in ManyCounts}
Requests == PublishRequests \cup SubRequests \cup ConnWanted \cup FixedRequests \cup BigRequests \cup ManyFilterRequests

VARIABLES req, phase, wire
vars == <<req, phase, wire>>
Init == req \in Requests /\ phase = "idle" /\ wire = <<>>
Do ==
  /\ phase = "idle" /\ phase' = "done" /\ UNCHANGED req
  /\ wire' = IF Expect(req).deny THEN wire ELSE Append(wire, Expect(req).pk)
Spec == Init /\ [][Do]_vars

(* Design-level sanity: a packet is emitted iff the request is valid, and  *)
(* the sizes are within the protocol's limits.                             *)
C09_DenyExactlyInvalid == phase = "done" => (Len(wire) = 0 <=> Expect(req).deny)
C09_WithinLimits == \A i \in DOMAIN wire : wire[i].size <= PacketMax + 5 /\ wire[i].rlb \in 1..4
=============================================================================
