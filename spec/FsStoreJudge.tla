---------------------------- MODULE FsStoreJudge ----------------------------
(* Judges what was observed on the real FileSystem store (property C19):   *)
(*  "calls": the system calls of one operation as traced with strace - the *)
(*           sequence has to be a behaviour of FsStore (spool created with *)
(*           O_CREAT|O_TRUNC, data, fsync before close and rename, nothing *)
(*           written to "<key>" in place);                                 *)
(*  "after": what a fresh process loads and lists after the operation was  *)
(*           killed at a system call, hit an injected error, or completed. *)
EXTENDS Naturals, Sequences, FiniteSets, TLC, Json, IOUtils, SequencesExt

R == ndJsonDeserialize(IOEnv.VERIF_TRACE)
VARIABLES l, bad
jvars == <<l, bad>>

\* the call sequence of a Save as a word over o w f c r u (open write fsync close rename unlink): o w+ f c r | failure paths
RECURSIVE Accepts(_, _)
Accepts(st, calls) ==
  IF calls = <<>> THEN st \in {"done", "any"}
  ELSE LET c == calls[1] IN
    CASE st = "start"   -> c.call = "open" /\ c.target = "spool" /\ c.creat /\ c.trunc /\ Accepts(IF c.ok THEN "opened" ELSE "done", Tail(calls))
      [] st = "opened"  -> \/ c.call = "write" /\ c.target = "spool" /\ Accepts(IF c.ok THEN "opened" ELSE "failing", Tail(calls))
                           \/ c.call = "fsync" /\ c.target = "spool" /\ Accepts(IF c.ok THEN "synced" ELSE "failing", Tail(calls))
      [] st = "synced"  -> c.call = "close" /\ Accepts("closed", Tail(calls))
      [] st = "failing" -> c.call = "close" /\ Accepts("removing", Tail(calls))
      [] st = "closed"  -> c.call = "rename" /\ c.target = "spool" /\ c.to = "key" /\ Accepts(IF c.ok THEN "done" ELSE "removing", Tail(calls))
      [] st = "removing" -> c.call = "unlink" /\ c.target = "spool" /\ Accepts("done", Tail(calls))
      [] OTHER -> FALSE
\* os.Remove tries unlink and, when that fails, rmdir (unlinkat with AT_REMOVEDIR): one or two calls on the key
AcceptsDelete(calls) == Len(calls) \in {1, 2} /\ \A i \in DOMAIN calls : calls[i].call = "unlink" /\ calls[i].target = "key"

Failed(r) ==
  CASE r.ev = "calls" ->
         {c \in {"C19_FlushedBeforeVisible"} : r.op = "save" /\ ~Accepts("start", r.calls)}
         \cup {c \in {"C19_OldOrNew"} : r.op = "delete" /\ ~AcceptsDelete(r.calls)}
         \cup {c \in {"C19_OldOrNew"} : \E i \in DOMAIN r.calls : r.calls[i].call \in {"open", "write"} /\ r.calls[i].target = "key"}
    [] r.ev = "after" ->
         \* r.key: what Load(key) returned, classified old / new / none / other ; r.how: completed, killed, error
         {c \in {"C19_OldOrNew"} : r.key \notin {r.old, IF r.op = "save" THEN "new" ELSE "none"}}
         \cup {c \in {"C19_ListLoadable"} : r.unloadable # <<>> \/ r.loaderr}
         \cup {c \in {"C19_FlushedBeforeVisible"} : r.how = "completed" /\ r.result = "" /\ r.op = "save" /\ r.key # "new"}
         \cup {c \in {"C19_FailedSaveKeepsOld"} : r.result # "" /\ r.how # "killed" /\ (r.key # r.old \/ r.spoolleft)}
         \cup {c \in {"C19_KeysIndependent"} : r.other # "intact"}
    [] r.ev = "concurrent" -> {c \in {"C19_KeysIndependent"} : r.err # ""}
    [] OTHER -> {"C19_UnknownLine"}

JInit == l = 1 /\ bad = {}
JStep == l <= Len(R) /\ bad' = bad \cup {<<c, R[l].case>> : c \in Failed(R[l])} /\ l' = l + 1
JEnd == l = Len(R) + 1 /\ ndJsonSerialize(IOEnv.VERIF_RESULT, <<[done |-> Len(R), bad |-> SetToSeq(bad), div |-> <<>>]>>)
        /\ l' = l + 1 /\ UNCHANGED bad
JSpec == JInit /\ [][JStep \/ JEnd]_jvars
=============================================================================
