CONSTANTS Alphabet = {0} MaxLen = 0 SeqNos = {} DamageVals = {}
SPECIFICATION JSpec
CHECK_DEADLOCK FALSE
