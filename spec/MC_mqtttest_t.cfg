CONSTANTS SampleK = 200 MaxWant = 2 MaxCalls = 3 DEV_F12 = FALSE DEV_F16 = FALSE
SPECIFICATION Spec
INVARIANTS C20_FailIffDeviation C20_StubsNeverFail C20_QuitMeansCanceled C20_PrivateCopies C20_NoPanic C20_ExchangeScript
CHECK_DEADLOCK FALSE
CONSTRAINT Export
