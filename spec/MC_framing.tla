----------------------------- MODULE MC_framing -----------------------------
EXTENDS Framing, Json, SequencesExt
StreamsQ == {
  <<Pub(0, 3)>>, <<Suback, Pub(0, 3)>>, <<Pub(1, 4), Pong, Pub(0, 0)>>, <<Pub(2, 2), Pub(1, 1)>>,
  <<Pub(0, 12), Pub(0, 1)>>, <<Pub(0, 13), Pub(0, 1)>>, <<Pub(0, 14), Pub(0, 1)>>,
  <<Pub(1, 11), Pub(0, 2)>>, <<Pub(1, 12), Pong, Pub(0, 2)>>, <<Pub(2, 30), Suback, Pub(0, 2)>>,
  <<Pub(0, 33), Pub(1, 40), Pub(0, 1)>>,
  <<Pub(2, 3), Dup(3), Pub(0, 1), Pub(0, 2)>>, <<Pub(2, 20), Dup(20), Pub(0, 1), Pub(0, 2)>> }
StreamsT == StreamsQ \cup {
  <<Pub(2, 9), Pub(2, 10), Pub(2, 11)>>, <<Pub(0, 16), Pub(0, 17), Pong, Pub(1, 0)>>, <<Suback, Pong, Suback, Pub(2, 35), Pub(2, 1)>> }
ASSUME PrintT(<<"NCASES", Cardinality(AllCases)>>)
ASSUME \A c \in AllCases : PrintT(<<"CASE", ToJson([stream |-> c.stream, cuts |-> SetToSortSeq(c.cuts, <), stalls |-> SetToSortSeq(c.stalls, <), b |-> B])>>)
=============================================================================
