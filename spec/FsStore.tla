------------------------------ MODULE FsStore ------------------------------
(***************************************************************************)
(* The FileSystem Persistence (mqtt.go) as a sequence of system calls on a *)
(* directory (property C19).  Save(key, v) writes v to "<key>.spool",      *)
(* flushes it, and renames it over "<key>"; on any error it removes the    *)
(* spool file and leaves "<key>" alone.  Delete unlinks "<key>".  The      *)
(* process may stop (Kill) between any two system calls and inside the     *)
(* data write (which then leaves a prefix).  List reports names of exactly *)
(* five hex digits, so a spool file is never listed.                       *)
(*                                                                         *)
(* File contents are abstract: "old" (the complete previous value), "new"  *)
(* (the complete value being saved), "part" (a proper prefix of new, maybe *)
(* empty), "none" (no such file).                                          *)
(***************************************************************************)
EXTENDS Naturals, Sequences, TLC

CONSTANTS HadOld,        \* TRUE: overwrite of an existing value; FALSE: first write
          Op,            \* "save" or "delete"
          MayFail        \* TRUE: system calls may return errors

VARIABLES key, spool,    \* contents of "<key>" and "<key>.spool"
          flushed,       \* spool content reached the disk (fsync returned)
          keyFlushed,    \* the content visible under "<key>" was flushed before it became visible
          pc,            \* position of the operation
          result         \* "", "ok", "err" - what the call returned; "killed"
vars == <<key, spool, flushed, keyFlushed, pc, result>>

Init ==
  /\ key = IF HadOld THEN "old" ELSE "none"
  /\ spool = "none" /\ flushed = FALSE /\ keyFlushed = TRUE
  /\ pc = "start" /\ result = ""

Fail(next) == MayFail /\ pc' = next

(* Save *)
Open ==      \* open("<key>.spool", O_CREAT|O_TRUNC)
  /\ Op = "save" /\ pc = "start"
  /\ \/ spool' = "part" /\ flushed' = FALSE /\ pc' = "opened" /\ UNCHANGED <<key, keyFlushed, result>>
     \/ MayFail /\ pc' = "done" /\ result' = "err" /\ UNCHANGED <<key, spool, flushed, keyFlushed>>
Write ==     \* one or more write calls; the last one completes the value
  /\ pc = "opened"
  /\ \/ spool' = "part" /\ pc' = "opened" /\ UNCHANGED <<key, flushed, keyFlushed, result>>      \* a chunk
     \/ spool' = "new" /\ pc' = "written" /\ UNCHANGED <<key, flushed, keyFlushed, result>>      \* the last chunk
     \/ MayFail /\ pc' = "failing" /\ UNCHANGED <<key, spool, flushed, keyFlushed, result>>      \* write error (disk full)
Fsync ==
  /\ pc = "written"
  /\ \/ flushed' = TRUE /\ pc' = "synced" /\ UNCHANGED <<key, spool, keyFlushed, result>>
     \/ MayFail /\ pc' = "failing" /\ UNCHANGED <<key, spool, flushed, keyFlushed, result>>
Close ==     \* close happens on the good and on the failure path alike
  /\ pc \in {"synced", "failing"}
  /\ pc' = IF pc = "synced" THEN "closed" ELSE "removing"
  /\ UNCHANGED <<key, spool, flushed, keyFlushed, result>>
Rename ==    \* rename("<key>.spool", "<key>"): atomic replacement
  /\ pc = "closed"
  /\ \/ key' = spool /\ keyFlushed' = flushed /\ spool' = "none" /\ pc' = "done" /\ result' = "ok" /\ UNCHANGED flushed
     \/ MayFail /\ pc' = "removing" /\ UNCHANGED <<key, spool, flushed, keyFlushed, result>>
Remove ==    \* failure path: unlink("<key>.spool")
  /\ pc = "removing"
  /\ spool' = "none" /\ pc' = "done" /\ result' = "err" /\ UNCHANGED <<key, flushed, keyFlushed>>

(* Delete *)
Unlink ==
  /\ Op = "delete" /\ pc = "start"
  /\ \/ key' = "none" /\ pc' = "done" /\ result' = "ok" /\ UNCHANGED <<spool, flushed, keyFlushed>>
     \/ MayFail /\ pc' = "done" /\ result' = "err" /\ UNCHANGED <<key, spool, flushed, keyFlushed>>

Kill == pc \notin {"done", "killed"} /\ pc' = "killed" /\ result' = "killed" /\ UNCHANGED <<key, spool, flushed, keyFlushed>>

Next == Open \/ Write \/ Fsync \/ Close \/ Rename \/ Remove \/ Unlink \/ Kill
Spec == Init /\ [][Next]_vars

(* C19 *)
OldValue == IF HadOld THEN "old" ELSE "none"
C19_OldOrNew == key \in {OldValue, IF Op = "save" THEN "new" ELSE "none"}     \* never a prefix, a mixture or an empty value
C19_ListLoadable == key # "part"                                             \* what List reports, Load returns (spool files are not listed)
C19_FlushedBeforeVisible == (result = "ok" /\ Op = "save") => (key = "new" /\ keyFlushed)
C19_FailedSaveKeepsOld == result = "err" => (key = OldValue /\ spool = "none")
C19_KilledKeepsOldOrNew == result = "killed" => key \in {OldValue, "new", "none"} /\ (key = "none" => (~HadOld \/ Op = "delete"))
=============================================================================
