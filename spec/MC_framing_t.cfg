CONSTANTS B = 16 Streams <- StreamsT MaxCuts = 3 AllPositions = FALSE
