CONSTANTS
  TopicLens = {0, 1, 5, 127, 128, 65535, 65536}
  TopicClasses = {"ascii", "utf8_2", "utf8_3", "utf8_4", "maxcp", "nonchar", "ctrl", "nul", "surrogate", "overlong", "truncated", "toobig", "lonecont"}
  PayloadSizes = {0, 1, 100, 16000, 16400, 2097000, 2097152}
  FilterCounts = {0, 1, 2}
  BigSizes = {268435450, 268435451, 268435452, 268435453}
  ManyCounts = {4096}
  Thorough = FALSE
SPECIFICATION Spec
INVARIANTS C09_DenyExactlyInvalid C09_WithinLimits
CONSTRAINT Export
CHECK_DEADLOCK FALSE
