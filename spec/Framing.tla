------------------------------ MODULE Framing ------------------------------
(***************************************************************************)
(* Inbound framing (property C06): a well-formed stream of packets from    *)
(* the broker, cut into network reads at arbitrary byte positions, with    *)
(* progress-making deadline expiries at cuts, against a read buffer of B   *)
(* bytes.  Whatever the cuts, ReadSlices has to return exactly the PUBLISH *)
(* packets of the stream, in order: as slices when the packet fits the     *)
(* buffer, as a BigMessage (read or skipped) when it does not, and the     *)
(* packets after a big or duplicate one must be found intact.              *)
(*                                                                         *)
(* A packet is [k, qos, n]: kind "pub" with payload size n (topic "t"),    *)
(* "pong" (PINGRESP), "suback" (for an identifier nobody waits for; the    *)
(* client tolerates both).  Sizes follow MQTT 3.1.1 for these shapes.      *)
(***************************************************************************)
EXTENDS Naturals, Sequences, FiniteSets, FiniteSetsExt, TLC

CONSTANTS B,         \* read buffer size
          Streams,   \* set of packet sequences
          MaxCuts,   \* cuts per stream, at most
          AllPositions  \* TRUE: every byte position is a cut candidate; FALSE: only those next to a field boundary

Pub(q, n) == [k |-> "pub", qos |-> q, n |-> n]
Dup(n) == [k |-> "dup", qos |-> 2, n |-> n]     \* retransmission (DUP) of the exactly-once publication right before it
Pong == [k |-> "pong", qos |-> 0, n |-> 0]
Suback == [k |-> "suback", qos |-> 0, n |-> 1]

Rem(p) == CASE p.k \in {"pub", "dup"} -> 2 + 1 + (IF p.qos > 0 THEN 2 ELSE 0) + p.n
            [] p.k = "pong" -> 0
            [] p.k = "suback" -> 3
RLB(r) == IF r < 128 THEN 1 ELSE IF r < 16384 THEN 2 ELSE 3
Size(p) == 1 + RLB(Rem(p)) + Rem(p)
IsBig(p) == p.k \in {"pub", "dup"} /\ Rem(p) > B

ConnackSize == 4
RECURSIVE Total(_)
Total(s) == IF s = <<>> THEN 0 ELSE Size(s[1]) + Total(Tail(s))
\* byte offsets (counted from the start of the connection, CONNACK first) at which packets start
RECURSIVE Starts(_, _)
Starts(s, off) == IF s = <<>> THEN {} ELSE {off} \cup Starts(Tail(s), off + Size(s[1]))
\* offsets next to a field boundary of some packet, or to a multiple of the buffer size
RECURSIVE Fields(_, _)
Fields(s, off) ==
  IF s = <<>> THEN {}
  ELSE LET p == s[1]  h == 1 + RLB(Rem(p))
           marks == {off + 1, off + h, off + h + 2, off + h + 3, off + h + (IF p.qos > 0 THEN 5 ELSE 3), off + Size(p) - 1, off + Size(p)}
       IN marks \cup Fields(Tail(s), off + Size(p))
Interesting(s) ==
  LET n == ConnackSize + Total(s)
      f == Fields(s, ConnackSize) \cup {1, 2, 3, ConnackSize} \cup {k * B : k \in 1..(n \div B)}
  IN {x \in UNION {{y - 1, y, y + 1} : y \in f} : x >= 1 /\ x < n}
Positions(s) == IF AllPositions THEN 1..(ConnackSize + Total(s) - 1) ELSE Interesting(s)

\* the packet that contains offset c (c bytes delivered so far end inside it): [start, hdr, size]
RECURSIVE PacketAt(_, _, _)
PacketAt(s, off, c) ==
  IF s = <<>> THEN [start |-> 0, hdr |-> 0, size |-> 0]
  ELSE IF c > off /\ c < off + Size(s[1]) THEN [start |-> off, hdr |-> 1 + RLB(Rem(s[1])), size |-> Size(s[1])]
  ELSE PacketAt(Tail(s), off + Size(s[1]), c)

(* A deadline expiry is PROGRESS-MAKING - and only then the property demands that it is survived - when at   *)
(* least one byte arrived between the arming of the deadline and the expiry.  The client arms the deadline  *)
(* when it needs more bytes of a packet whose header it has.  So a pause after cut c counts when the read   *)
(* that ended at c was itself issued while waiting for payload of the same packet: the previous cut lies at *)
(* or behind the end of that packet's header.  (Pauses inside CONNACK or inside a header are not judged.)   *)
Progress(s, cs, c) ==
  LET prevs == {x \in cs : x < c}
      prev == IF prevs = {} THEN 0 ELSE Max(prevs)
      p == PacketAt(s, ConnackSize, c)
  IN p.size > 0 /\ prev >= p.start + p.hdr /\ prev < c

Cases(s) ==
  UNION {{[stream |-> s, cuts |-> cs, stalls |-> st] : st \in SUBSET {c \in cs : Progress(s, cs, c)}}
         : cs \in UNION {kSubset(k, Positions(s)) : k \in 0..MaxCuts}}
\* every read one byte long
AllCuts(s) == 1..(ConnackSize + Total(s) - 1)
OneByte(s) == [stream |-> s, cuts |-> AllCuts(s), stalls |-> {}]
OneByteStalled(s) == [stream |-> s, cuts |-> AllCuts(s), stalls |-> {c \in AllCuts(s) : Progress(s, AllCuts(s), c)}]
AllCases == UNION {Cases(s) \cup {OneByte(s), OneByteStalled(s)} : s \in Streams}

\* what ReadSlices must return for a stream: the PUBLISH packets, in order
Expected(s) == SelectSeq(s, LAMBDA p : p.k = "pub")
=============================================================================
