----------------------------- MODULE ClientTrace -----------------------------
(***************************************************************************)
(* Code -> model: schedules that the explorer chose on its own (seeded,    *)
(* not derived from the specification) are validated against the actions   *)
(* of MqttClient.  Every recorded step <<process, gate, outcome>> has to   *)
(* be a move of the specification from the current state; the gate the     *)
(* process reached next has to be the one the move leads to; the           *)
(* projection of the real client recorded after the step has to equal      *)
(* Proj of the specification's state.  Broker reactions and wake-ups are   *)
(* immediate in those runs and are applied as a closure after every step.  *)
(* A step without a matching move is a rejection: the rest of that         *)
(* execution is skipped, the next one starts from the initial state.       *)
(***************************************************************************)
EXTENDS MC_client, IOUtils

Trace == ndJsonDeserialize(IOEnv.VERIF_TRACE)

VARIABLES l, case, live, bad, nstep, pend
tvars == <<st, hist, l, case, live, bad, nstep, pend>>

\* the gate a process is parked at, as the harness names it ("" = not at a gate)
SiteOf(s, p) ==
  LET pc == IF p = "abort" THEN s.abortSt ELSE s.pc[p] IN
  IF p = "abort" THEN (CASE pc = "ctx" -> "abort.ctx" [] pc = "sent" -> "abort.sent" [] pc = "done" -> "abort.done" [] OTHER -> "")
  ELSE IF p \in {"term1", "term2"} THEN (IF pc = "t.got" THEN (IF p = "term1" THEN "term.seq1" ELSE "term.seq2") ELSE "")
  ELSE CASE pc = "call" -> (IF p = "rd" THEN "ReadSlices" ELSE Ops(p)[s.loc[p].op].m)
         [] pc \in {"k.load", "rs.load", "p.load"} -> "store.Load"
         [] pc \in {"f.save", "c.save", "q.save"} -> "store.Save"
         [] pc \in {"a.del", "m.del", "l.del"} -> "store.Delete"
         [] pc = "k.dial" -> "dial"
         [] pc \in {"k.rconn", "r.read"} -> "conn.Read"
         [] pc \in WriteGates -> "conn.Write"
         [] pc \in {"idle", "t.join", "off.wait", "close.wait", "req.wait", "t.wait", "ws.block"} -> ""
         [] OTHER -> pc

\* outcomes as the harness records them -> outcomes of the specification
Out(e) == IF e.o = "timeout" /\ e.n >= 1 THEN "part" ELSE IF e.o = "hard" THEN "err" ELSE e.o
Name(p) == IF p \in {"rd", "rd2", "rd3"} THEN "rd" ELSE p

\* broker reactions and wake-ups happen at once in these runs
RECURSIVE Closure(_)
Closure(s) ==
  LET b == BrokerMoves(s)  w == TermWake(s) \cup ReqWake(s) \cup SemWake(s) IN
  IF b # {} THEN Closure((CHOOSE x \in b : TRUE).s)
  ELSE IF w # {} THEN Closure(CHOOSE x \in w : TRUE)
  ELSE s

\* candidate successor states for a recorded process step
Cands(s, e) ==
  LET p == Name(e.p) IN
  IF p \notin Procs THEN {}
  ELSE {Closure(m2.s) : m2 \in UNION {Settled(mv, p) : mv \in {x \in MovesOf(s, p) : x.at = e.at /\ x.o = Out(e)}}}
\* ... narrowed by where the process was seen next ("?" = not recorded)
Narrow(S, e) == IF e.next = "?" THEN S ELSE {t \in S : SiteOf(t, Name(e.p)) = e.next}

\* A process that the explorer released may block inside the library before it reaches its next gate (on a
\* semaphore somebody else holds).  The specification has such a move only once it can complete: the step is kept
\* pending and fires, in the order the processes blocked, as soon as it is enabled.
RECURSIVE Fire(_, _)
Fire(s, q) ==
  LET s1 == Closure(s)
      idx == {i \in DOMAIN q : Cands(s1, q[i]) # {}}
  IN IF idx = {} THEN [s |-> s1, q |-> q]
     ELSE LET i == CHOOSE k \in idx : \A j \in idx : k <= j IN
          Fire(CHOOSE t \in Cands(s1, q[i]) : TRUE, SubSeq(q, 1, i - 1) \o SubSeq(q, i + 1, Len(q)))
ProjOk(s, e) ==   \* the recorded projection against the specification's
  LET x == Proj(s) IN
  /\ e.acked = x.acked /\ e.received = x.received /\ e.completed = x.completed
  /\ (e.accept1 < 0 \/ x.accept1 < 0 \/ e.accept1 = x.accept1) /\ (e.accept2 < 0 \/ x.accept2 < 0 \/ e.accept2 = x.accept2)
  /\ (e.submit1 < 0 \/ x.submit1 < 0 \/ e.submit1 = x.submit1) /\ (e.submit2 < 0 \/ x.submit2 < 0 \/ e.submit2 = x.submit2)
  /\ e.q1 = x.q1 /\ e.q2 = x.q2 /\ (e.pack > 0) = x.pack /\ e.wsem = x.wsem /\ e.csem = x.csem
  /\ e.ping = x.ping /\ e.utx = x.utx /\ e.online = x.online /\ e.offline = x.offline

TInit == st = St0 /\ hist = <<>> /\ l = 1 /\ case = 0 /\ live = FALSE /\ bad = {} /\ nstep = 0 /\ pend = <<>>

Reject(e, why) == /\ bad' = bad \cup {<<case, e.seq, why>>} /\ live' = FALSE /\ UNCHANGED <<st, nstep, pend>>
Go(s, q) == LET f == Fire(s, q) IN st' = f.s /\ pend' = f.q /\ UNCHANGED <<live, bad>>

TStep ==
  /\ l <= Len(Trace)
  /\ l' = l + 1 /\ UNCHANGED hist
  /\ LET e == Trace[l] IN
     IF e.e = "reset" THEN case' = e.case /\ st' = St0 /\ pend' = <<>> /\ live' = TRUE /\ UNCHANGED <<bad, nstep>>
     ELSE /\ UNCHANGED case
          /\ IF ~live THEN UNCHANGED <<st, live, bad, nstep, pend>>
             ELSE IF e.e = "step" /\ e.kind = "proc" THEN
               LET all == Cands(st, e)  S == Narrow(all, e) IN
               IF S # {} THEN Go(CHOOSE t \in S : TRUE, pend) /\ nstep' = nstep + 1
               ELSE IF all = {} /\ e.next = "?" /\ Name(e.p) \in Procs /\ SiteOf(st, Name(e.p)) = e.at
                 THEN pend' = Append(pend, e) /\ nstep' = nstep + 1 /\ UNCHANGED <<st, live, bad>>   \* blocked inside the library
               ELSE Reject(e, IF all = {} THEN "no such move" ELSE "other gate reached")
             ELSE IF e.e = "step" /\ e.kind = "inject" THEN
               LET P == PublishMoves(st) IN
               IF P # {} THEN Go((CHOOSE x \in P : TRUE).s, pend) /\ UNCHANGED nstep
               ELSE Reject(e, "no inbound publication possible")
             ELSE IF e.e = "step" /\ e.kind = "restart" THEN
               LET R == {r \in Restarts(st) : r.damage = <<>>} IN
               IF R # {} THEN Go((CHOOSE r \in R : TRUE).s, <<>>) /\ UNCHANGED nstep
               ELSE Reject(e, "no restart possible")
             ELSE IF e.e = "step" /\ e.kind = "quit" THEN
               LET Q == {q \in QuitMoves(st) : q.p = e.p} IN
               IF Q # {} THEN Go((CHOOSE q \in Q : TRUE).s, pend) /\ UNCHANGED nstep
               ELSE live' = FALSE /\ UNCHANGED <<st, bad, nstep, pend>>    \* quit before submission: outside the specification's vocabulary
             ELSE IF e.e = "snap" THEN
               IF ProjOk(st, e) THEN UNCHANGED <<st, live, bad, nstep, pend>> ELSE Reject(e, "projection differs")
             ELSE IF e.e = "end" THEN live' = FALSE /\ UNCHANGED <<st, bad, nstep, pend>>
             ELSE UNCHANGED <<st, live, bad, nstep, pend>>
TEnd ==
  /\ l = Len(Trace) + 1
  /\ ndJsonSerialize(IOEnv.VERIF_RESULT, <<[done |-> Len(Trace), steps |-> nstep, bad |-> SetToSeq(bad)]>>)
  /\ l' = l + 1 /\ UNCHANGED <<st, hist, case, live, bad, nstep, pend>>
TSpec == TInit /\ [][TStep \/ TEnd]_tvars
=============================================================================
