------------------------------- MODULE Rugged -------------------------------
(***************************************************************************)
(* The record format of ruggedPersistence (mqtt.go, property C15):         *)
(*   value = packet bytes || 8-byte little-endian storage sequence number  *)
(*           || 4-byte big-endian FNV-1a (32 bit) over both.               *)
(* Bytes are naturals 0..255; sequence numbers are given as their 8 bytes  *)
(* (TLC integers are 32 bit); the FNV state is a pair of 16-bit limbs.     *)
(*                                                                         *)
(* State machine: one key of a store.  Save writes Encode(p, s); Damage    *)
(* alters exactly one byte; Truncate cuts the value short; Load decodes.   *)
(***************************************************************************)
EXTENDS Naturals, Sequences, FiniteSets, Bitwise, SequencesExt, TLC

CONSTANTS Alphabet,   \* packet bytes used by the bounded model
          MaxLen,     \* longest packet of the bounded model
          SeqNos,     \* set of 8-byte sequences
          DamageVals  \* byte values tried as replacement (0..255 for all)

FnvOffset == <<33052, 40389>>                 \* 0x811C 0x9DC5
\* FNV prime 16777619 = 256 * 65536 + 403
FnvStep(h, b) ==
  LET lo == h[2] ^^ b
      t  == lo * 403
  IN  <<(h[1] * 403 + lo * 256 + (t \div 65536)) % 65536, t % 65536>>
Fnv(bytes) == FoldLeft(FnvStep, FnvOffset, bytes)
BE32(h) == <<h[1] \div 256, h[1] % 256, h[2] \div 256, h[2] % 256>>

Encode(p, s) == p \o s \o BE32(Fnv(p \o s))

Decode(v) ==
  IF Len(v) < 12 THEN [ok |-> FALSE, why |-> "truncated", p |-> <<>>, s |-> <<>>]
  ELSE IF BE32(Fnv(SubSeq(v, 1, Len(v) - 4))) # SubSeq(v, Len(v) - 3, Len(v))
       THEN [ok |-> FALSE, why |-> "corrupt", p |-> <<>>, s |-> <<>>]
       ELSE [ok |-> TRUE, why |-> "", p |-> SubSeq(v, 1, Len(v) - 12), s |-> SubSeq(v, Len(v) - 11, Len(v) - 4)]

-----------------------------------------------------------------------------
VARIABLES val,      \* stored bytes
          orig,     \* [p, s] last saved
          state     \* "empty", "saved", "damaged", "truncated"
vars == <<val, orig, state>>

Packets == UNION {[1..n -> Alphabet] : n \in 0..MaxLen}

Init == val = <<>> /\ orig = [p |-> <<>>, s |-> <<>>] /\ state = "empty"

Save(p, s) ==
  /\ state \in {"empty", "saved"}
  /\ val' = Encode(p, s) /\ orig' = [p |-> p, s |-> s] /\ state' = "saved"

Damage(i, b) ==
  /\ state = "saved" /\ i \in 1..Len(val) /\ b # val[i]
  /\ val' = [val EXCEPT ![i] = b] /\ state' = "damaged" /\ UNCHANGED orig

Truncate(n) ==
  /\ state = "saved" /\ n \in 0..11
  /\ val' = SubSeq(val, 1, n) /\ state' = "truncated" /\ UNCHANGED orig

Next ==
  \/ \E p \in Packets, s \in SeqNos : Save(p, s)
  \/ \E i \in 1..(MaxLen + 12), b \in DamageVals : Damage(i, b)
  \/ \E n \in 0..11 : Truncate(n)
Spec == Init /\ [][Next]_vars

C15_Layout ==
  state = "saved" =>
    /\ Len(val) = Len(orig.p) + 12
    /\ SubSeq(val, 1, Len(orig.p)) = orig.p
    /\ SubSeq(val, Len(orig.p) + 1, Len(orig.p) + 8) = orig.s
C15_RoundTrip ==
  state = "saved" => LET d == Decode(val) IN d.ok /\ d.p = orig.p /\ d.s = orig.s
C15_DamageDetected ==
  state \in {"damaged", "truncated"} => ~Decode(val).ok
=============================================================================
