CONSTANTS B = 16 Streams <- StreamsQ MaxCuts = 2 AllPositions = FALSE
