----------------------------- MODULE MqttClient -----------------------------
(***************************************************************************)
(* The client of github.com/pascaldekloe/mqtt at the grain of its blocking *)
(* points.  A process is a goroutine; it is always parked at a GATE: a     *)
(* hook site of the verif build tag (placed directly after a channel       *)
(* operation), an I/O call on an object the application supplies           *)
(* (net.Conn, Dialer, Persistence), or the entry of an API call.  One      *)
(* move = the code between the gate a process is parked at and the next    *)
(* gate it reaches; when that code starts with a blocking channel          *)
(* operation the move exists only when the operation can complete.         *)
(*                                                                         *)
(* The whole state is one record st (client state that dies with the       *)
(* process, the Persistence, the connections, the broker session, fault    *)
(* budgets).  Moves(st, p) is the set of [s |-> next state, at |-> gate,   *)
(* o |-> outcome] for process p; every step appends <<p, gate, outcome>>   *)
(* to hist, which TLC exports as a behaviour file.  The Go harness replays *)
(* it against the real code parked at the same gates, and traces recorded  *)
(* from the real code are checked against these very moves (ClientTrace).  *)
(*                                                                         *)
(* The semaphores hold exactly what the channels hold (client.go: connSem, *)
(* writeSem, seqSem per level, pingAck, signal channels).  The             *)
(* specification follows the repaired tree; DEV_F4 / DEV_F6 re-enable two  *)
(* pinned behaviours (DESIGN.md section 7).                                *)
(***************************************************************************)
EXTENDS Naturals, Integers, Sequences, FiniteSets, SequencesExt, TLC

CONSTANTS
  Script,        \* [process name -> sequence of operations [m, tag]]
  Script2,       \* the same for the processes of the second generation (started on the client that AdoptSession returns)
  MaxStops,      \* process stops (each followed by AdoptSession on the same Persistence), at most
  MaxDamage,     \* records removed or altered while the process is down, at most
  AMax, EMax,    \* Config.AtLeastOnceMax / ExactlyOnceMax
  MaxConns,      \* dials that succeed, at most
  DialFails, WriteFails, ReadFails, StoreFails,   \* fault budgets
  MaxCalls,      \* ReadSlices invocations, at most (bounds the model)
  InMsgs,        \* sequence of [qos, tag]: what the broker publishes to the client, in this order
  RecordHist,    \* FALSE in the liveness configurations (hist would make every state distinct)
  DEV_F4, DEV_F6, DEV_F2, DEV_F10, DEV_F19, DEV_F25,
  InitStore,     \* <<>>, or the Persistence an earlier incarnation left behind: the run starts with its adoption
  InitDamage,    \* records of InitStore removed or altered before that adoption, at most
  Blocking       \* TRUE: a process may be released from its gate into a receive on the write semaphore that blocks (it then
                 \* waits at no gate, queued); FALSE: such a move exists only once it can complete (fewer states: the
                 \* process stays at its gate meanwhile, which is where the replay keeps it)

IdMod  == 16384
Space(l) == IF l = 1 THEN 32768 ELSE 49152
PENDING == -1   DOWN == -2   HELD == -3   CLOSED == -4   NILCONN == 0
MarkFlag == 65536

Writers == DOMAIN Script \cup DOMAIN Script2
Ops(p)  == IF p \in DOMAIN Script THEN Script[p] ELSE Script2[p]
Procs   == {"rd", "abort", "term1", "term2"} \cup Writers
MaxQ(l) == IF l = 1 THEN AMax ELSE EMax
LevelOf(m) == CASE m \in {"PublishAtLeastOnce", "PublishAtLeastOnceRetained"} -> 1
                [] m \in {"PublishExactlyOnce", "PublishExactlyOnceRetained"} -> 2
                [] OTHER -> 0

Pk(t, id, tag, dup, qos) == [t |-> t, id |-> id, tag |-> tag, dup |-> dup, qos |-> qos]
NoPk == Pk("none", 0, 0, FALSE, 0)
NewConn == [c2b |-> <<>>, tail |-> FALSE, taken |-> 0, b2c |-> <<>>, closed |-> FALSE, dead |-> FALSE, eof |-> FALSE]
NoSlot == [p |-> "", n |-> 0]
\* (slot: bytes were accepted in the current WriteTo call of a vectored write: an expiry then counts as progress)
Loc0 == [op |-> 1, prev |-> NILCONN, conn |-> NILCONN, err |-> "", lvl |-> 0, seqNo |-> 0, ctx |-> "", after |-> "",
         inline |-> FALSE, backlog |-> FALSE, herr |-> FALSE, val |-> 0, slot |-> FALSE, who |-> NoSlot, blk |-> ""]
\* a value arrives on the done channel of a Ping callback: it matters only while that very call still waits for it
Pong(s, who, v) == IF who.p # "" /\ s.loc[who.p].op = who.n THEN [s EXCEPT !.pong[who.p] = v] ELSE s
Current(s, who) == who.p # "" /\ s.loc[who.p].op = who.n

Has(f, k) == k \in DOMAIN f
Put(f, k, v) == (k :> v) @@ f
Del(f, k) == [x \in DOMAIN f \ {k} |-> f[x]]

St0 ==
  [pc |-> [p \in Procs |-> IF p = "rd" \/ (p \in DOMAIN Script /\ Script[p] # <<>>) THEN "call" ELSE "idle"],
   loc |-> [p \in Procs |-> Loc0],
   connSem |-> NILCONN, writeSem |-> PENDING, seqSem |-> [l \in 1..2 |-> "free"],
   acceptN |-> [l \in 1..2 |-> 0], submitN |-> [l \in 1..2 |-> 0],
   acked |-> 0, received |-> 0, completed |-> 0,
   queue |-> [l \in 1..2 |-> <<>>],
   pack |-> NoPk, readConn |-> NILCONN, inbuf |-> <<>>,
   ctxDone |-> FALSE, online |-> FALSE, offline |-> TRUE,
   pingSlot |-> [p |-> "", n |-> 0],         \* the callback in c.pingAck: process and number of its call; p = "" when free
   pong |-> [p \in Writers |-> "none"],      \* what a waiting Ping received on its done channel
   pingSent |-> [p \in Writers |-> FALSE],   \* the PINGREQ of the Ping in progress was written
   strayPong |-> FALSE,                      \* a PINGRESP was handed to a Ping whose PINGREQ was not written yet
   subs |-> <<>>,                            \* [packet identifier -> requesting process] pending SUBSCRIBE transactions
   subdone |-> [p \in Writers |-> "none"],   \* what a waiting Subscribe received on its done channel
   utxN |-> 0,                               \* unorderedTxs.n
   store |-> <<>>, conns |-> <<>>,
   wq |-> <<>>,                              \* processes blocked on the write semaphore, in the order they blocked
   rseq |-> 0,                               \* ruggedPersistence.seqNo: every Save stores the next number with the record
   gen |-> 1, stops |-> 0, warn |-> 0, damaged |-> 0,   \* generation of the client; stops so far; warnings of the last AdoptSession
   broker |-> [session |-> FALSE, awaiting |-> {}, delivered |-> <<>>,
               out |-> <<>>,       \* deliveries to the client: [id, qos, tag, state] with state sent / rec / done
               nextIn |-> 1],
   exch |-> <<>>, rets |-> [p \in Procs |-> <<>>],
   abortSt |-> "none", doneClosed |-> FALSE, termLeft |-> 0,
   calls |-> 0,
   budget |-> [dial |-> DialFails, write |-> WriteFails, read |-> ReadFails, store |-> StoreFails]]

VARIABLES st, hist
vars == <<st, hist>>
view == st

(* ----------------------------------------------------------------------- *)
Mv(s, at, o) == [s |-> s, at |-> at, o |-> o]
G(s, p, l) == [s EXCEPT !.pc[p] = l]
KeyOf(l, n) == Space(l) + (n % IdMod)
Spend(s, k) == [s EXCEPT !.budget[k] = @ - 1]
CloseC(s, c) == IF c >= 1 THEN [s EXCEPT !.conns[c].closed = TRUE] ELSE s
RetP(s, p, m, e) == [s EXCEPT !.rets[p] = Append(@, [m |-> m, err |-> e])]
ExErr(s, tag, e) == IF Has(s.exch, tag) THEN [s EXCEPT !.exch[tag].errs = Append(@, e)] ELSE s
ExClose(s, tag) == IF Has(s.exch, tag) THEN [s EXCEPT !.exch[tag].closed = TRUE] ELSE s

\* outcomes a Write on connection c can have, and the state after paying for an injected failure
\* "err" = connection reset; "timeout" = the write deadline expired without a byte accepted (the connection stays
\* usable); "part" (below) = the deadline expired after some bytes: the library goes on with the rest of the packet
WriteOutcomes(s, c) == IF s.conns[c].closed THEN {"closed"} ELSE IF s.conns[c].dead THEN {"err"}
                       ELSE {"ok"} \cup (IF s.budget.write > 0 THEN {"err", "timeout"} ELSE {})
\* (an injected failure is a connection reset: nothing passes in either direction afterwards)
PayW(s, c, o) == IF o = "err" /\ ~s.conns[c].dead THEN [Spend(s, "write") EXCEPT !.conns[c].dead = TRUE]
                 ELSE IF o = "timeout" THEN Spend(s, "write") ELSE s
\* a deadline expiry with progress: the process stays at its write gate, an incomplete packet is on the connection
Partial(s, c) == IF s.budget.write > 0 /\ ~s.conns[c].closed /\ ~s.conns[c].dead
                 THEN {Mv([Spend(s, "write") EXCEPT !.conns[c].tail = TRUE], "conn.Write", "part")} ELSE {}
ReadOutcomes(s, c) == IF s.conns[c].closed THEN {"closed"} ELSE IF s.conns[c].dead THEN {"err"}
                      ELSE IF s.conns[c].b2c # <<>> THEN {"ok"} \cup (IF s.budget.read > 0 THEN {"err"} ELSE {})
                      ELSE IF s.conns[c].eof THEN {"eof"} ELSE {}
PayR(s, c, o) == IF o = "err" /\ ~s.conns[c].dead THEN [Spend(s, "read") EXCEPT !.conns[c].dead = TRUE] ELSE s
StoreOutcomes(s) == {"ok"} \cup (IF s.budget.store > 0 THEN {"err"} ELSE {})
PayS(s, o) == IF o = "err" THEN Spend(s, "store") ELSE s

\* an API call of a scripted process returns: on to its next operation
NextOp(s, p, m, e) ==
  LET r == RetP(s, p, m, e) IN
  IF s.loc[p].op < Len(Ops(p)) THEN [G(r, p, "call") EXCEPT !.loc[p].op = @ + 1] ELSE G(r, p, "idle")

(* ----------------------------------------------------------------------- *)
(* The read routine                                                        *)

\* where readSlices goes with the packet at the head of the read buffer
Dispatch(s, buf) ==
  IF buf = <<>> THEN "r.read"
  ELSE LET p == buf[1] IN
    CASE p.t = "PUBLISH" /\ p.qos < 2 -> "r.ret"
      [] p.t = "PUBLISH" /\ p.qos = 2 -> "p.load"
      [] p.t = "PUBACK" -> IF p.id = KeyOf(1, s.acked) /\ s.queue[1] # <<>> THEN "a.del" ELSE "off.sel"
      [] p.t = "PUBREC" -> IF p.id = KeyOf(2, s.received) /\ s.received - s.completed < Len(s.queue[2]) THEN "c.save" ELSE "off.sel"
      [] p.t = "PUBCOMP" -> IF p.id = KeyOf(2, s.completed) /\ s.completed < s.received /\ s.queue[2] # <<>> THEN "m.del" ELSE "off.sel"
      [] p.t = "PUBREL" -> "l.del"
      [] p.t = "PINGRESP" -> "r.pong"
      [] p.t \in {"SUBACK", "UNSUBACK"} -> "r.suback"
      [] OTHER -> "off.sel"

\* unorderedTxs.breakAll: every pending subscribe transaction receives ErrBreak
BreakAll(s) == [s EXCEPT !.subdone = [p \in Writers |-> IF \E i \in DOMAIN s.subs : s.subs[i] = p THEN "break" ELSE s.subdone[p]],
                         !.subs = <<>>]
\* "off.sel" is the select at the start of toOffline; err/after say what follows it
ToOff(s, e) == [G(s, "rd", "off.sel") EXCEPT !.loc["rd"].err = e, !.loc["rd"].after = "ret"]
\* continue the packet loop after the head packet was handled
NextPacket(s) == LET b == Tail(s.inbuf) IN G([s EXCEPT !.inbuf = b], "rd", Dispatch(s, b))
\* flush at the start of readSlices
FlushStart(s) == IF s.pack = NoPk THEN Dispatch(s, s.inbuf) ELSE IF s.pack.t = "PUBREC" THEN "f.save" ELSE "wn.take"
\* ReadSlices returns; ErrClosed starts termCallbacks
RdReturn(s, e) == LET r == RetP(s, "rd", "ReadSlices", e) IN
                  IF e = "closed" THEN G([r EXCEPT !.termLeft = 2], "rd", "t.spawn") ELSE G(r, "rd", "call")
(* A receive on the write semaphore.  Go serves blocked receivers in the order they blocked and hands a released   *)
(* value over at once, so a process that finds the semaphore taken (or others waiting) blocks inside the library,    *)
(* at no gate (ws.block), queued in wq; k names where it continues once it is served (SemWake).                     *)
TakeW(s, p, k) ==
  LET v == s.writeSem  h == IF v = CLOSED THEN CLOSED ELSE HELD IN
  CASE k = "lw"     -> [G(s, p, "lw.got") EXCEPT !.writeSem = h, !.loc[p].val = v]        \* lockWrite
    [] k = "wn"     -> [G(s, p, "wn.got") EXCEPT !.writeSem = h, !.loc[p].val = v]        \* writeBuffersNoWait (publisher, read routine)
    [] k = "kw"     -> [G(s, p, "k.write") EXCEPT !.writeSem = HELD]                       \* connect
    [] k = "failw"  -> [G(s, p, "k.failw") EXCEPT !.writeSem = HELD, !.loc[p].val = v]     \* connect failed
    [] k = "offw"   -> [G(s, p, "off.waited") EXCEPT !.writeSem = h, !.loc[p].val = v]     \* toOffline
    [] k = "closew" -> [G(s, p, "close.waited") EXCEPT !.writeSem = HELD]                  \* Close
    [] OTHER        -> [G(s, p, "disc.write") EXCEPT !.writeSem = HELD, !.loc[p].val = v]  \* Disconnect
RecvW(s, p, k) == IF s.writeSem # HELD /\ s.wq = <<>> THEN {TakeW(s, p, k)}
                  ELSE IF Blocking \/ k \in {"offw", "closew"}     \* (those two have closed the connection before: always a move)
                    THEN {[G(s, p, "ws.block") EXCEPT !.wq = Append(@, p), !.loc[p].blk = k]}
                  ELSE {}
\* connect failed: <-c.writeSem, then hook k.failw
FailW(s, e) == RecvW([s EXCEPT !.loc["rd"].err = e], "rd", "failw")

\* resend of level l from sequence number n (e = error so far)
Resend(s, l, n, e) ==
  IF e = "" /\ n < s.acceptN[l]
  THEN [G(s, "rd", "rs.load") EXCEPT !.loc["rd"].lvl = l, !.loc["rd"].seqNo = n, !.loc["rd"].err = ""]
  ELSE [G(s, "rd", IF l = 1 THEN "k.unseq1" ELSE "k.unseq2") EXCEPT !.seqSem[l] = "free", !.loc["rd"].lvl = l, !.loc["rd"].err = e]

RdMoves(s) ==
  LET L == s.loc["rd"]  c == L.conn  at == s.pc["rd"] IN
  CASE at = "call" ->
         IF s.calls >= MaxCalls THEN {} ELSE
         LET s1 == [s EXCEPT !.calls = @ + 1] IN
         IF s.readConn = NILCONN THEN
           \* connect(): previousConn, ok := <-c.connSem ; hook k.conn
           IF s.connSem = HELD THEN {}
           ELSE IF s.connSem = CLOSED
             THEN {Mv([G(s1, "rd", "k.conn") EXCEPT !.loc["rd"].err = "closed", !.loc["rd"].inline = FALSE], "ReadSlices", "ok")}
             ELSE {Mv([G(s1, "rd", "k.conn") EXCEPT !.connSem = HELD, !.loc["rd"].prev = s.connSem, !.loc["rd"].err = "",
                                                    !.loc["rd"].inline = FALSE], "ReadSlices", "ok")}
         ELSE \* drop the packet returned before, flush the owed acknowledgement
           LET b == IF L.ctx = "returned" /\ s.inbuf # <<>> THEN Tail(s.inbuf) ELSE s.inbuf
               s2 == [s1 EXCEPT !.inbuf = b, !.loc["rd"].ctx = "flush"]
           IN {Mv(G(s2, "rd", FlushStart(s2)), "ReadSlices", "ok")}
    [] at = "k.conn" ->
         IF L.err = "closed" THEN {Mv(RdReturn(s, "closed"), "k.conn", "ok")}
         ELSE {Mv(G(s, "rd", "k.load"), "k.conn", "ok")}
    [] at = "k.load" ->  \* Load of the client identifier
         {Mv(G(s, "rd", "k.dial"), "store.Load", "ok")}
         \cup (IF s.budget.store > 0 THEN {Mv(x, "store.Load", "err") : x \in FailW(Spend(s, "store"), "store")} ELSE {})
    [] at = "k.failw" ->  \* c.writeSem <- connDown ; c.connSem <- previousConn ; hook k.fail
         {Mv([G(s, "rd", "k.fail") EXCEPT !.writeSem = IF L.val = CLOSED THEN CLOSED ELSE DOWN, !.connSem = L.prev], "k.failw", "ok")}
    [] at = "k.fail" -> {Mv(RdReturn(s, L.err), "k.fail", "ok")}
    [] at = "k.dial" ->
         \* (a Dialer may still hand out a connection although the context got cancelled meanwhile: the abort goroutine closes it)
         (IF Len(s.conns) < MaxConns
          THEN {Mv([G(s, "rd", "k.wconn") EXCEPT !.conns = Append(@, NewConn), !.loc["rd"].conn = Len(s.conns) + 1,
                                                  !.loc["rd"].herr = FALSE, !.abortSt = "wait", !.doneClosed = FALSE], "dial", "ok")}
          ELSE {})
         \cup (IF s.budget.dial > 0 /\ ~s.ctxDone THEN {Mv(x, "dial", "err") : x \in FailW(Spend(s, "dial"), "dial")} ELSE {})
         \cup (IF s.ctxDone THEN {Mv([G(s, "rd", "k.cancelled") EXCEPT !.connSem = L.prev], "dial", "cancelled")} ELSE {})
         \* (any Dialer error counts as the cancellation once the context is done)
         \cup (IF s.ctxDone /\ s.budget.dial > 0 THEN {Mv([G(Spend(s, "dial"), "rd", "k.cancelled") EXCEPT !.connSem = L.prev], "dial", "err")} ELSE {})
    [] at = "k.cancelled" -> {Mv(RdReturn(s, "closed"), "k.cancelled", "ok")}
    [] at = "k.wconn" ->  \* Write of CONNECT
         {IF o = "ok" THEN Mv([G(s, "rd", "k.rconn") EXCEPT !.conns[c].c2b = Append(@, Pk("CONNECT", 0, 0, FALSE, 0)), !.conns[c].tail = FALSE], "conn.Write", o)
          ELSE Mv([G(PayW(s, c, o), "rd", "k.shaken") EXCEPT !.loc["rd"].herr = TRUE], "conn.Write", o)
          : o \in WriteOutcomes(s, c)} \cup Partial(s, c)
    [] at = "k.rconn" ->  \* Read of CONNACK
         {IF o = "ok"
          THEN LET first == s.conns[c].b2c[1]  good == first.t = "CONNACK" /\ first.id = 0 IN
               Mv([G(s, "rd", "k.shaken") EXCEPT !.conns[c].b2c = <<>>, !.loc["rd"].herr = ~good,
                                                !.inbuf = IF good THEN Tail(s.conns[c].b2c) ELSE <<>>], "conn.Read", o)
          ELSE Mv([G(PayR(s, c, o), "rd", "k.shaken") EXCEPT !.loc["rd"].herr = TRUE, !.inbuf = <<>>], "conn.Read", o)
          : o \in ReadOutcomes(s, c)}
    [] at = "k.shaken" ->  \* close(done)   [pinned: done <- struct{}{} needs the abort goroutine as receiver: F6]
         IF DEV_F6 /\ s.abortSt # "wait" THEN {}
         ELSE {Mv([G(s, "rd", "k.sync1") EXCEPT !.doneClosed = TRUE], "k.shaken", "ok")}
    [] at = "k.sync1" ->  \* e := <-abort
         IF s.abortSt \in {"sent", "end.sent", "end.done"}
         THEN {Mv([G(s, "rd", "k.sync2") EXCEPT !.loc["rd"].err = IF s.abortSt = "end.done" THEN "" ELSE "closed"], "k.sync1", "ok")}
         ELSE {}
    [] at = "k.sync2" ->
         IF L.err = "closed" THEN {Mv(x, "k.sync2", "ok") : x \in FailW(s, "closed")}
         ELSE IF L.herr THEN {Mv(x, "k.sync2", "ok") : x \in FailW(CloseC(s, c), "handshake")}
         ELSE IF s.seqSem[1] = "free" THEN {Mv([G(s, "rd", "k.seq1") EXCEPT !.seqSem[1] = "held"], "k.sync2", "ok")} ELSE {}
    [] at = "k.seq1" -> IF s.seqSem[2] = "free" THEN {Mv([G(s, "rd", "k.seq2") EXCEPT !.seqSem[2] = "held"], "k.seq1", "ok")} ELSE {}
    [] at = "k.seq2" -> {Mv(x, "k.seq2", "ok") : x \in RecvW(s, "rd", "kw")}
    [] at = "k.write" -> {Mv([G(s, "rd", "k.unconn") EXCEPT !.connSem = c], "k.write", "ok")}
    [] at = "k.unconn" -> {Mv(Resend(s, 1, s.acked, ""), "k.unconn", "ok")}
    [] at = "rs.load" ->
         LET l == L.lvl  key == KeyOf(l, L.seqNo) IN
         {Mv(IF Has(s.store, key) THEN G(s, "rd", "rs.write") ELSE Resend(s, l, L.seqNo, "missing"), "store.Load", "ok")}
         \cup (IF s.budget.store > 0 THEN {Mv(Resend(Spend(s, "store"), l, L.seqNo, "store"), "store.Load", "err")} ELSE {})
    [] at = "rs.write" ->
         LET l == L.lvl  n == L.seqNo  key == KeyOf(l, n)  rec == s.store[key]
             pkt == IF rec.kind = "REL" THEN Pk("PUBREL", key, 0, FALSE, 0) ELSE Pk("PUBLISH", key, rec.tag, n < s.submitN[l], l)
         IN {IF o = "ok"
             THEN Mv(Resend([s EXCEPT !.conns[c].c2b = Append(@, pkt), !.conns[c].tail = FALSE, !.submitN[l] = IF n >= @ THEN n + 1 ELSE @], l, n + 1, ""), "conn.Write", o)
             ELSE Mv(Resend(PayW(s, c, o), l, n, "write"), "conn.Write", o)
             : o \in WriteOutcomes(s, c)} \cup Partial(s, c)
    [] at = "k.unseq1" ->
         IF L.err # "" THEN {Mv([G(s, "rd", "k.unseq2") EXCEPT !.seqSem[2] = "free"], "k.unseq1", "ok")}
         ELSE {Mv(Resend(s, 2, s.completed, ""), "k.unseq1", "ok")}
    [] at = "k.unseq2" ->
         IF L.err # "" THEN {Mv([G(CloseC(s, c), "rd", "k.down") EXCEPT !.writeSem = DOWN], "k.unseq2", "ok")}
         ELSE {Mv([G(s, "rd", "k.sigmid") EXCEPT !.offline = FALSE], "k.unseq2", "ok")}
    [] at = "k.down" -> {Mv(RdReturn(s, L.err), "k.down", "ok")}
    [] at = "k.sigmid" -> {Mv([G(s, "rd", "k.online") EXCEPT !.online = TRUE, !.writeSem = c], "k.sigmid", "ok")}
    [] at = "k.online" ->
         LET s1 == [s EXCEPT !.readConn = c, !.loc["rd"].ctx = "flush"] IN
         {Mv(G(s1, "rd", IF L.inline THEN Dispatch(s1, s1.inbuf) ELSE FlushStart(s1)), "k.online", "ok")}
    (* --- owed acknowledgement ------------------------------------------- *)
    [] at = "f.save" ->  \* Save of the inbound marker before PUBREC goes out
         {Mv(G([s EXCEPT !.store = Put(@, MarkFlag + s.pack.id, [kind |-> "MARK", tag |-> 0, sseq |-> s.rseq + 1]), !.rseq = @ + 1], "rd", "wn.take"), "store.Save", "ok")}
         \cup (IF s.budget.store > 0 THEN {Mv(RdReturn([Spend(s, "store") EXCEPT !.rseq = @ + 1], "store"), "store.Save", "err")} ELSE {})
    (* --- the read routine's own writes (writeBuffersNoWait; pinned: lockWrite, F4) --- *)
    [] at = "wn.take" ->  \* conn, ok := <-c.writeSem ; hook wn.got.  This label is not a gate: it is entered and left in one move
         {}
    [] at = "wn.got" ->
         IF L.val = CLOSED THEN {Mv(ToOff(s, "closed"), "wn.got", "ok")}
         ELSE IF L.val \in {PENDING, DOWN} THEN {Mv(ToOff([s EXCEPT !.writeSem = L.val], "down"), "wn.got", "ok")}
         ELSE {Mv(G(s, "rd", "wn.write"), "wn.got", "ok")}
    [] at = "wn.write" ->
         LET w == L.val IN
         {IF o = "ok" THEN Mv([G(s, "rd", "w.ok") EXCEPT !.conns[w].c2b = Append(@, s.pack), !.conns[w].tail = FALSE, !.writeSem = w], "conn.Write", o)
          ELSE Mv([G(CloseC(PayW(s, w, o), w), "rd", "w.fail") EXCEPT !.writeSem = PENDING], "conn.Write", o)
          : o \in WriteOutcomes(s, w)} \cup Partial(s, w)
    [] at = "w.ok" ->
         LET s1 == [s EXCEPT !.pack = NoPk] IN
         {Mv(IF L.ctx = "flush" THEN G(s1, "rd", Dispatch(s1, s1.inbuf)) ELSE NextPacket(s1), "w.ok", "ok")}
    [] at = "w.fail" -> {Mv(ToOff(s, "submit"), "w.fail", "ok")}
    (* --- reading and the handlers ---------------------------------------- *)
    [] at = "r.read" ->
         LET rc == s.readConn IN
         {IF o = "ok" THEN LET s1 == [s EXCEPT !.inbuf = s.conns[rc].b2c, !.conns[rc].b2c = <<>>] IN
                           Mv(G(s1, "rd", Dispatch(s1, s1.inbuf)), "conn.Read", o)
          ELSE IF o = "closed" THEN Mv([ToOff(s, "") EXCEPT !.loc["rd"].after = "reconnect"], "conn.Read", o)
          ELSE Mv(ToOff(PayR(s, rc, o), o), "conn.Read", o)
          : o \in ReadOutcomes(s, rc)}
    [] at = "r.ret" ->  \* not a gate: handled by the move that enters it
         {}
    [] at = "p.load" ->  \* Load of the inbound marker
         LET p == s.inbuf[1]  seen == Has(s.store, MarkFlag + p.id) IN
         {Mv(IF seen THEN [G(s, "rd", "wn.take") EXCEPT !.pack = Pk("PUBREC", p.id, 0, FALSE, 0), !.loc["rd"].ctx = "dupe"]
             ELSE [G(s, "rd", "r.ret") EXCEPT !.pack = Pk("PUBREC", p.id, 0, FALSE, 0)], "store.Load", "ok")}
         \cup (IF s.budget.store > 0 THEN {Mv(ToOff(Spend(s, "store"), "store"), "store.Load", "err")} ELSE {})
    [] at = "a.del" ->  \* PUBACK: Delete, Acked++, close(<-queue)
         LET p == s.inbuf[1]  tag == s.queue[1][1] IN
         {Mv(NextPacket(ExClose([s EXCEPT !.store = Del(@, p.id), !.acked = @ + 1, !.queue[1] = Tail(@)], tag)), "store.Delete", "ok")}
         \cup (IF s.budget.store > 0 THEN {Mv(ToOff(Spend(s, "store"), "store"), "store.Delete", "err")} ELSE {})
    [] at = "c.save" ->  \* PUBREC: Save PUBREL, Received++, write PUBREL
         LET p == s.inbuf[1] IN
         {Mv([G(s, "rd", "wn.take") EXCEPT !.store = Put(@, p.id, [kind |-> "REL", tag |-> s.store[p.id].tag, sseq |-> s.rseq + 1]), !.rseq = @ + 1,
                                            !.received = @ + 1,
                                            !.pack = Pk("PUBREL", p.id, 0, FALSE, 0), !.loc["rd"].ctx = "pubrel"], "store.Save", "ok")}
         \cup (IF s.budget.store > 0 THEN {Mv(ToOff([Spend(s, "store") EXCEPT !.rseq = @ + 1], "store"), "store.Save", "err")} ELSE {})
    [] at = "m.del" ->  \* PUBCOMP: Delete, Completed++, close(<-queue)
         LET p == s.inbuf[1]  tag == s.queue[2][1] IN
         {Mv(NextPacket(ExClose([s EXCEPT !.store = Del(@, p.id), !.completed = @ + 1, !.queue[2] = Tail(@)], tag)), "store.Delete", "ok")}
         \cup (IF s.budget.store > 0 THEN {Mv(ToOff(Spend(s, "store"), "store"), "store.Delete", "err")} ELSE {})
    [] at = "l.del" ->  \* inbound PUBREL: Delete marker, write PUBCOMP
         LET p == s.inbuf[1] IN
         {Mv([G(s, "rd", "wn.take") EXCEPT !.store = Del(@, MarkFlag + p.id), !.pack = Pk("PUBCOMP", p.id, 0, FALSE, 0),
                                            !.loc["rd"].ctx = "pubcomp"], "store.Delete", "ok")}
         \cup (IF s.budget.store > 0 THEN {Mv(ToOff(Spend(s, "store"), "store"), "store.Delete", "err")} ELSE {})
    [] at = "pong.slot" -> {Mv(NextPacket([Pong(s, L.who, "ok") EXCEPT !.strayPong = @ \/ (Current(s, L.who) /\ ~s.pingSent[L.who.p])]), "pong.slot", "ok")}   \* close(ack)
    (* --- toOffline --------------------------------------------------------- *)
    [] at = "off.lock" ->
         IF L.val = CLOSED THEN {Mv(G(s, "rd", "off.end"), "off.lock", "ok")}
         ELSE {Mv([G(CloseC(s, s.readConn), "rd", "off.sigmid") EXCEPT !.online = FALSE], "off.lock", "ok")}
    [] at = "off.nolock" ->  \* readConn.Close(): interrupts the write in progress; then <-c.writeSem blocks (off.wait, no gate)
         {Mv(x, "off.nolock", "ok") : x \in RecvW(CloseC(s, s.readConn), "rd", "offw")}
    [] at = "off.waited" ->
         IF L.val = CLOSED THEN {Mv(G(s, "rd", "off.end"), "off.waited", "ok")}
         ELSE {Mv([G(s, "rd", "off.sigmid") EXCEPT !.online = FALSE], "off.waited", "ok")}
    [] at = "off.sigmid" -> {Mv([G(s, "rd", "off.unlock") EXCEPT !.offline = TRUE, !.writeSem = PENDING], "off.sigmid", "ok")}
    [] at = "off.unlock" ->
         LET s1 == [s EXCEPT !.readConn = NILCONN, !.inbuf = <<>>] IN
         IF s.pingSlot # NoSlot THEN {Mv([G(s1, "rd", "off.ping") EXCEPT !.loc["rd"].who = s.pingSlot, !.pingSlot = NoSlot], "off.unlock", "ok")}
         ELSE {Mv(G(BreakAll(s1), "rd", "off.end"), "off.unlock", "ok")}
    [] at = "off.ping" -> {Mv(G(BreakAll(Pong(s, L.who, "break")), "rd", "off.end"), "off.ping", "ok")}
    [] at = "f4.spin" -> {Mv(s, "lw.wait", "ok")}   \* lw.got, lw.wait, lw.woke for ever
    [] at = "term.ping" ->
         LET s1 == Pong(s, L.who, "break") IN
         {Mv(IF s.termLeft = 0 THEN G(BreakAll(s1), "rd", "idle") ELSE G(s1, "rd", "t.join"), "term.ping", "ok")}
    [] OTHER -> {}

(* Labels that are not gates are resolved at once: a move that ends in one *)
(* of them continues to the next gate.                                     *)
Settle(s) ==
  LET at == s.pc["rd"]  L == s.loc["rd"] IN
  CASE at = "wn.take" ->   \* conn, ok := <-c.writeSem (may block: then the move does not exist)
         IF DEV_F4 /\ s.writeSem = PENDING /\ s.wq = <<>>
           THEN \* pinned tree: lockWrite waits for a connect that only this very routine could make (F4)
                [ok |-> TRUE, s |-> G(s, "rd", "f4.spin")]
         ELSE LET r == RecvW(s, "rd", "wn") IN IF r = {} THEN [ok |-> FALSE, s |-> s] ELSE [ok |-> TRUE, s |-> CHOOSE x \in r : TRUE]
    [] at = "r.ret" ->     \* ReadSlices returns the message at the head of the buffer
         LET p == s.inbuf[1]
             s1 == IF p.qos = 1 THEN [s EXCEPT !.pack = Pk("PUBACK", p.id, 0, FALSE, 0)] ELSE s
         IN [ok |-> TRUE, s |-> [G(RetP(s1, "rd", p.tag, "msg"), "rd", "call") EXCEPT !.loc["rd"].ctx = "returned"]]
    [] at = "r.pong" ->    \* PINGRESP: a waiting Ping is released (hook pong.slot), else tolerated
         IF s.pingSlot # NoSlot THEN [ok |-> TRUE, s |-> [G(s, "rd", "pong.slot") EXCEPT !.loc["rd"].who = s.pingSlot, !.pingSlot = NoSlot]]
         ELSE [ok |-> TRUE, s |-> NextPacket(s)]
    [] at = "r.suback" ->  \* SUBACK: the pending transaction (if any) is completed; unknown identifiers are tolerated
         LET p == s.inbuf[1] IN
         IF Has(s.subs, p.id) THEN [ok |-> TRUE, s |-> NextPacket([s EXCEPT !.subdone[s.subs[p.id]] = "ok", !.subs = Del(@, p.id)])]
         ELSE [ok |-> TRUE, s |-> NextPacket(s)]
    [] at = "off.sel" ->   \* select { case <-c.writeSem: ... default: ... }
         IF s.writeSem = HELD THEN [ok |-> TRUE, s |-> G(s, "rd", "off.nolock")]
         ELSE [ok |-> TRUE, s |-> [G(s, "rd", "off.lock") EXCEPT !.writeSem = IF s.writeSem = CLOSED THEN CLOSED ELSE HELD,
                                                                !.loc["rd"].val = s.writeSem]]
    [] at = "off.end" ->   \* toOffline returned
         IF L.after = "reconnect"
         THEN \* peekPacket saw a closed connection: connect() again within the same invocation
              IF s.connSem = HELD THEN [ok |-> FALSE, s |-> s]
              ELSE IF s.connSem = CLOSED THEN [ok |-> TRUE, s |-> [G(s, "rd", "k.conn") EXCEPT !.loc["rd"].err = "closed", !.loc["rd"].inline = TRUE]]
              ELSE [ok |-> TRUE, s |-> [G(s, "rd", "k.conn") EXCEPT !.connSem = HELD, !.loc["rd"].prev = s.connSem, !.loc["rd"].err = "",
                                                                   !.loc["rd"].inline = TRUE]]
         ELSE [ok |-> TRUE, s |-> RdReturn(s, L.err)]
    [] at = "t.spawn" ->   \* termCallbacks: two helpers start; the ping slot is emptied; wg.Wait
         LET s1 == [s EXCEPT !.pc["term1"] = "t.wait", !.pc["term2"] = "t.wait"] IN
         IF s.pingSlot # NoSlot THEN [ok |-> TRUE, s |-> [G(s1, "rd", "term.ping") EXCEPT !.loc["rd"].who = s.pingSlot, !.pingSlot = NoSlot]]
         ELSE [ok |-> TRUE, s |-> G(s1, "rd", "t.join")]
    [] OTHER -> [ok |-> TRUE, s |-> s]

TransientRd == {"wn.take", "r.ret", "r.pong", "r.suback", "off.sel", "off.end", "t.spawn"}
RECURSIVE SettleAll(_)
SettleAll(s) == IF s.pc["rd"] \in TransientRd
                THEN LET r == Settle(s) IN IF r.ok THEN (IF r.s.pc["rd"] = s.pc["rd"] /\ r.s = s THEN [ok |-> TRUE, s |-> s] ELSE SettleAll(r.s)) ELSE r
                ELSE [ok |-> TRUE, s |-> s]

(* ----------------------------------------------------------------------- *)
(* termCallbacks: two helper goroutines and the caller                     *)

\* a helper finished: the caller (blocked in wg.Wait, then breakAll) returns ErrClosed once both are done
TermDone(s) == LET s1 == [s EXCEPT !.termLeft = @ - 1] IN
               IF s1.termLeft = 0 /\ s1.pc["rd"] = "t.join" THEN G(BreakAll(s1), "rd", "idle") ELSE s1

TermMoves(s, p) ==
  LET l == IF p = "term1" THEN 1 ELSE 2  at == s.pc[p]  site == IF l = 1 THEN "term.seq1" ELSE "term.seq2" IN
  CASE at = "t.got" ->    \* parked at hook term.seqN, holding the sequence semaphore (or having seen it closed)
         IF s.loc[p].val = CLOSED THEN {Mv(TermDone(G(s, p, "idle")), site, "ok")}
         ELSE \* close(seqSem) ; close(queue) ; every pending exchange receives ErrClosed
              LET RECURSIVE Flush(_, _)
                  Flush(x, q) == IF q = <<>> THEN x ELSE Flush(ExErr(x, q[1], "closed"), Tail(q))
              IN {Mv(TermDone(G([Flush(s, s.queue[l]) EXCEPT !.seqSem[l] = "closed", !.queue[l] = <<>>], p, "idle")), site, "ok")}
    [] OTHER -> {}

\* the helper's channel receive completes on its own (no gate before it)
TermWake(s) ==
  {[G(s, p, "t.got") EXCEPT !.loc[p].val = IF s.seqSem[IF p = "term1" THEN 1 ELSE 2] = "closed" THEN CLOSED ELSE 0,
                            !.seqSem[IF p = "term1" THEN 1 ELSE 2] = IF @ = "closed" THEN "closed" ELSE "held"]
   : p \in {q \in {"term1", "term2"} : s.pc[q] = "t.wait" /\ s.seqSem[IF q = "term1" THEN 1 ELSE 2] # "held"}}

(* ----------------------------------------------------------------------- *)
(* Persisted publishers: PublishAtLeastOnce / PublishExactlyOnce           *)

PubMoves(s, p) ==
  LET L == s.loc[p]  op == Ops(p)[L.op]  l == LevelOf(op.m)  at == s.pc[p]  tag == op.tag IN
  CASE at = "call" ->     \* seq, ok := <-out.seqSem
         IF s.seqSem[l] = "held" THEN {}
         ELSE IF s.seqSem[l] = "closed" \/ s.ctxDone THEN {Mv(NextOp(s, p, op.m, "closed"), op.m, "ok")}
         ELSE {Mv([G(s, p, "q.seq") EXCEPT !.seqSem[l] = "held", !.loc[p].err = "", !.loc[p].backlog = s.submitN[l] < s.acceptN[l]], op.m, "ok")}
    [] at = "q.seq" ->
         IF Len(s.queue[l]) >= MaxQ(l) THEN {Mv([G(s, p, "q.unseq") EXCEPT !.seqSem[l] = "free", !.loc[p].err = "max"], "q.seq", "ok")}
         ELSE {Mv(G(s, p, "q.save"), "q.seq", "ok")}
    [] at = "q.save" ->
         LET key == KeyOf(l, s.acceptN[l]) IN
         {Mv([G(s, p, "q.saved") EXCEPT !.store = Put(@, key, [kind |-> "PUB", tag |-> tag, sseq |-> s.rseq + 1]), !.rseq = @ + 1, !.queue[l] = Append(@, tag),
                                         !.acceptN[l] = @ + 1, !.exch = Put(@, tag, [errs |-> <<>>, closed |-> FALSE])], "store.Save", "ok")}
         \cup (IF s.budget.store > 0 THEN {Mv([G(Spend(s, "store"), p, "q.unseq") EXCEPT !.seqSem[l] = "free", !.loc[p].err = "store", !.rseq = @ + 1], "store.Save", "err")} ELSE {})
    [] at = "q.saved" ->
         IF L.backlog THEN {Mv([G(ExErr(s, tag, "down"), p, "q.unseq") EXCEPT !.seqSem[l] = "free"], "q.saved", "ok")}
         ELSE {Mv(x, "q.saved", "ok") : x \in RecvW(s, p, "wn")}
    [] at = "wn.got" ->
         IF L.val = CLOSED THEN {Mv([G(ExErr(s, tag, "closed"), p, "q.unseq") EXCEPT !.seqSem[l] = "free"], "wn.got", "ok")}
         ELSE IF L.val \in {PENDING, DOWN} THEN {Mv([G(ExErr(s, tag, "down"), p, "q.unseq") EXCEPT !.seqSem[l] = "free", !.writeSem = L.val], "wn.got", "ok")}
         ELSE {Mv(G(s, p, "wn.write1"), "wn.got", "ok")}
    [] at = "wn.write1" ->  \* header buffer of the vectored write
         LET w == L.val IN
         {IF o = "ok" THEN Mv([G(s, p, "wn.write2") EXCEPT !.conns[w].tail = TRUE, !.loc[p].slot = TRUE], "conn.Write", o)
          ELSE Mv([G(CloseC(PayW(s, w, o), w), p, "w.fail") EXCEPT !.writeSem = PENDING], "conn.Write", o)
          : o \in WriteOutcomes(s, w)} \cup Partial(s, w)
    [] at = "wn.write2" ->  \* payload buffer
         LET w == L.val  pkt == Pk("PUBLISH", KeyOf(l, s.acceptN[l] - 1), tag, FALSE, l) IN
         {IF o = "ok" THEN Mv([G(s, p, "w.ok") EXCEPT !.conns[w].c2b = Append(@, pkt), !.conns[w].tail = FALSE, !.writeSem = w, !.loc[p].slot = FALSE], "conn.Write", o)
          ELSE IF o = "timeout" /\ L.slot THEN Mv([PayW(s, w, o) EXCEPT !.loc[p].slot = FALSE], "conn.Write", o)   \* retried with the rest
          ELSE Mv([G(CloseC(PayW(s, w, o), w), p, "w.fail") EXCEPT !.writeSem = PENDING, !.loc[p].slot = FALSE], "conn.Write", o)
          : o \in WriteOutcomes(s, w)} \cup {[mv EXCEPT !.s.loc[p].slot = FALSE] : mv \in Partial(s, w)}
    [] at = "w.ok" -> {Mv([G(s, p, "q.unseq") EXCEPT !.submitN[l] = s.acceptN[l], !.seqSem[l] = "free"], "w.ok", "ok")}
    [] at = "w.fail" -> {Mv([G(ExErr(s, tag, "submit"), p, "q.unseq") EXCEPT !.seqSem[l] = "free"], "w.fail", "ok")}
    [] at = "q.unseq" -> {Mv(NextOp(s, p, op.m, L.err), "q.unseq", "ok")}
    [] OTHER -> {}


(* ----------------------------------------------------------------------- *)
(* Requests through lockWrite: Publish (at most once), Ping, Subscribe     *)

\* lockWrite's select: the write semaphore (quit channels are nil in the model)
\* When somebody else holds the semaphore the process blocks in that select, inside the library and before any
\* further gate (lw.block); it is served in its turn (wq, SemWake).
LwSelect(s, p) == RecvW(s, p, "lw")

ReqPacket(s, p, op) ==
  CASE op.m = "Ping" -> Pk("PINGREQ", 0, 0, FALSE, 0)
    [] op.m = "Subscribe" -> Pk("SUBSCRIBE", s.loc[p].seqNo, 0, FALSE, 0)
    [] op.m = "Unsubscribe" -> Pk("UNSUBSCRIBE", s.loc[p].seqNo, 0, FALSE, 0)
    [] OTHER -> Pk("PUBLISH", 0, op.tag, FALSE, 0)

\* the request failed before or during submission: release what it held, return
ReqFail(s, p, op, e) ==
  CASE op.m = "Ping" ->
         \* repaired tree: the callback is installed under the write lock, so before that there is nothing to release;
         \* after a failed write the read routine releases it (toOffline), as for any connection loss
         IF ~DEV_F25 THEN NextOp(s, p, op.m, e)
         ELSE [G(IF s.pingSlot.p = p THEN [s EXCEPT !.pingSlot = NoSlot] ELSE s, p, "ping.clean") EXCEPT !.loc[p].err = e]
    [] op.m \in {"Subscribe", "Unsubscribe"} -> NextOp([s EXCEPT !.subs = Del(@, s.loc[p].seqNo)], p, op.m, e)
    [] OTHER -> NextOp(s, p, op.m, e)

ReqMoves(s, p) ==
  LET L == s.loc[p]  op == Ops(p)[L.op]  at == s.pc[p] IN
  CASE at = "call" ->
         IF op.m = "Ping" THEN
           IF s.ctxDone THEN {Mv(NextOp(s, p, op.m, "closed"), op.m, "ok")}
           ELSE IF ~DEV_F25 THEN {Mv(x, op.m, "ok") : x \in LwSelect([s EXCEPT !.pong[p] = "none", !.pingSent[p] = FALSE], p)}
           \* pinned tree (F25): the callback was installed before lockWrite
           ELSE IF s.pingSlot = NoSlot THEN {Mv([G(s, p, "ping.slot") EXCEPT !.pingSlot = [p |-> p, n |-> L.op], !.pong[p] = "none", !.pingSent[p] = FALSE], op.m, "ok")}
           ELSE {Mv(G(s, p, "ping.max"), op.m, "ok")}
         ELSE IF op.m \in {"Subscribe", "Unsubscribe"} THEN
           \* startTx (one counter for both kinds, an identifier space each), then lockWrite
           LET id == (IF op.m = "Subscribe" THEN 24576 ELSE 16384) + (s.utxN % 8192)
               s1 == [s EXCEPT !.utxN = @ + 1, !.subs = Put(@, id, p), !.subdone[p] = "none", !.loc[p].seqNo = id]
           IN {Mv(x, op.m, "ok") : x \in LwSelect(s1, p)}
         ELSE {Mv(x, op.m, "ok") : x \in LwSelect(s, p)}
    [] at = "ping.slot" -> IF DEV_F25 THEN {Mv(x, "ping.slot", "ok") : x \in LwSelect(s, p)}
                           ELSE {Mv(G(s, p, "lw.write"), "ping.slot", "ok")}   \* holds the write lock
    [] at = "ping.max" -> {Mv(NextOp(s, p, op.m, "max"), "ping.max", "ok")}
    [] at = "lw.got" ->
         IF L.val = CLOSED THEN {Mv(ReqFail(s, p, op, "closed"), "lw.got", "ok")}
         ELSE IF L.val = DOWN THEN {Mv(ReqFail([s EXCEPT !.writeSem = DOWN], p, op, "down"), "lw.got", "ok")}
         ELSE IF L.val = PENDING THEN {Mv(G([s EXCEPT !.writeSem = PENDING], p, "lw.wait"), "lw.got", "ok")}
         ELSE IF op.m = "Ping" /\ ~DEV_F25 THEN
           \* install the callback with the write lock held, or give the lock back: ErrMax
           IF s.pingSlot = NoSlot THEN {Mv([G(s, p, "ping.slot") EXCEPT !.pingSlot = [p |-> p, n |-> L.op]], "lw.got", "ok")}
           ELSE {Mv([G(s, p, "ping.max") EXCEPT !.writeSem = L.val], "lw.got", "ok")}
         ELSE {Mv(G(s, p, IF op.m = "Publish" THEN "lw.write1" ELSE "lw.write"), "lw.got", "ok")}
    [] at = "lw.wait" ->   \* select { ctx.Done ; Online ; 20 ms tick }
         \* with the context cancelled Go chooses among the ready cases: ctx.Done, and the ticker once 20 ms have passed
         (IF s.ctxDone THEN {Mv(ReqFail(s, p, op, "closed"), "lw.wait", "ok")} ELSE {})
         \cup {Mv(G(s, p, "lw.woke"), "lw.wait", "ok")}
    [] at = "lw.woke" -> {Mv(x, "lw.woke", "ok") : x \in LwSelect(s, p)}
    [] at = "lw.write1" -> \* header buffer of the vectored write (Publish)
         LET w == L.val IN
         {IF o = "ok" THEN Mv([G(s, p, "lw.write") EXCEPT !.conns[w].tail = TRUE, !.loc[p].slot = TRUE], "conn.Write", o)
          ELSE Mv([G(CloseC(PayW(s, w, o), w), p, "w.fail") EXCEPT !.writeSem = PENDING], "conn.Write", o)
          : o \in WriteOutcomes(s, w)} \cup Partial(s, w)
    [] at = "lw.write" ->
         LET w == L.val IN
         {IF o = "ok" THEN Mv([G(s, p, "w.ok") EXCEPT !.conns[w].c2b = Append(@, ReqPacket(s, p, op)), !.conns[w].tail = FALSE, !.writeSem = w,
                                                     !.pingSent[p] = (op.m = "Ping"), !.loc[p].slot = FALSE], "conn.Write", o)
          ELSE IF o = "timeout" /\ L.slot THEN Mv([PayW(s, w, o) EXCEPT !.loc[p].slot = FALSE], "conn.Write", o)   \* retried with the rest
          ELSE Mv([G(CloseC(PayW(s, w, o), w), p, "w.fail") EXCEPT !.writeSem = PENDING, !.loc[p].slot = FALSE], "conn.Write", o)
          : o \in WriteOutcomes(s, w)} \cup {[mv EXCEPT !.s.loc[p].slot = FALSE] : mv \in Partial(s, w)}
    [] at = "w.fail" -> {Mv(ReqFail(s, p, op, "submit"), "w.fail", "ok")}
    [] at = "ping.clean" -> {Mv(NextOp(s, p, op.m, L.err), "ping.clean", "ok")}
    [] at = "w.ok" ->
         IF op.m = "Publish" THEN {Mv(NextOp(s, p, op.m, ""), "w.ok", "ok")}
         ELSE {Mv(G(s, p, "req.wait"), "w.ok", "ok")}   \* blocked until the response (or a break) arrives; no gate here
    [] at = "ping.done" -> {Mv(NextOp([s EXCEPT !.pong[p] = "none"], p, op.m, IF s.pong[p] = "ok" THEN "" ELSE "break"), "ping.done", "ok")}
    [] at \in {"sub.done", "unsub.done"} -> {Mv(NextOp([s EXCEPT !.subdone[p] = "none"], p, op.m, IF s.subdone[p] = "ok" THEN "" ELSE "break"), at, "ok")}
    \* the quit channel of the call was closed while it awaited its response (hooks ping.quit, sub.quit, unsub.quit)
    [] at = "ping.quit" -> \* the callback stays in the slot until the read routine consumes it (F26)
         {Mv(NextOp(s, p, op.m, "abandoned"), "ping.quit", "ok")}
    [] at \in {"sub.quit", "unsub.quit"} -> \* endTx releases the slot
         {Mv(NextOp([s EXCEPT !.subs = Del(@, s.loc[p].seqNo), !.subdone[p] = "none"], p, op.m, "abandoned"), at, "ok")}
    [] OTHER -> {}

\* a waiting request wakes up on its own when its done channel is served (hook ping.done / sub.done follows)
ReqWake(s) ==
  {G(s, p, CASE Ops(p)[s.loc[p].op].m = "Ping" -> "ping.done" [] Ops(p)[s.loc[p].op].m = "Unsubscribe" -> "unsub.done" [] OTHER -> "sub.done")
   : p \in {q \in Writers : s.pc[q] = "req.wait" /\ (IF Ops(q)[s.loc[q].op].m = "Ping" THEN s.pong[q] # "none" ELSE s.subdone[q] # "none")}}

\* The application closes the quit channel of a call that awaits its response.  (Only there: before submission
\* lockWrite's select has the write semaphore ready as well, and Go would choose at random.)
QuitMoves(s) ==
  {[s |-> G(s, p, CASE Ops(p)[s.loc[p].op].m = "Ping" -> "ping.quit" [] Ops(p)[s.loc[p].op].m = "Unsubscribe" -> "unsub.quit" [] OTHER -> "sub.quit"), p |-> p]
   : p \in {q \in Writers : s.pc[q] = "req.wait" /\ Ops(q)[s.loc[q].op].quit = "later"
                              /\ (IF Ops(q)[s.loc[q].op].m = "Ping" THEN s.pong[q] = "none" ELSE s.subdone[q] = "none")}}

(* ----------------------------------------------------------------------- *)
(* Close                                                                   *)

CloseMoves(s, p) ==
  LET L == s.loc[p]  at == s.pc[p] IN
  CASE at = "call" -> {Mv([G(s, p, "close.cancel") EXCEPT !.ctxDone = TRUE], "Close", "ok")}
    [] at = "close.cancel" ->   \* conn, ok := <-c.connSem
         IF s.connSem = HELD THEN {}
         ELSE {Mv([G(s, p, "close.conn") EXCEPT !.connSem = IF s.connSem = CLOSED THEN CLOSED ELSE HELD, !.loc[p].prev = s.connSem], "close.cancel", "ok")}
    [] at = "close.conn" ->
         IF L.prev = CLOSED THEN {Mv(NextOp(s, p, "Close", ""), "close.conn", "ok")}
         ELSE IF s.writeSem # HELD
           THEN {Mv([G(s, p, "close.write") EXCEPT !.writeSem = HELD, !.loc[p].val = s.writeSem], "close.conn", "ok")}
           ELSE {Mv(G(s, p, "close.nowrite"), "close.conn", "ok")}
    [] at = "close.write" ->    \* (conn.Close()) ; deferred: blockSignalChan(onlineSig) ; hook close.sigmid
         {Mv([G(IF L.val >= 1 THEN CloseC(s, L.val) ELSE s, p, "close.sigmid") EXCEPT !.online = FALSE], "close.write", "ok")}
    [] at = "close.nowrite" ->  \* conn.Close(): interrupts the write in progress; then <-c.writeSem blocks (close.wait, no gate)
         {Mv(x, "close.nowrite", "ok") : x \in RecvW(CloseC(s, L.prev), p, "closew")}
    [] at = "close.waited" -> {Mv([G(s, p, "close.sigmid") EXCEPT !.online = FALSE], "close.waited", "ok")}
    [] at = "close.sigmid" ->   \* clearSignalChan(offlineSig) ; close(writeSem) ; close(connSem) ; return
         {Mv(NextOp([s EXCEPT !.offline = TRUE, !.writeSem = CLOSED, !.connSem = CLOSED], p, "Close", ""), "close.sigmid", "ok")}
    [] OTHER -> {}

(* ----------------------------------------------------------------------- *)
(* Disconnect (quit is nil): like Close, but it waits for the write lock   *)
(* and sends DISCONNECT first                                              *)

DiscMoves(s, p) ==
  LET L == s.loc[p]  at == s.pc[p] IN
  CASE at = "call" -> {Mv([G(s, p, "disc.cancel") EXCEPT !.ctxDone = TRUE], "Disconnect", "ok")}
    [] at = "disc.cancel" ->    \* conn, ok := <-c.connSem
         IF s.connSem = HELD THEN {}
         ELSE {Mv([G(s, p, "disc.conn") EXCEPT !.connSem = IF s.connSem = CLOSED THEN CLOSED ELSE HELD, !.loc[p].prev = s.connSem], "disc.cancel", "ok")}
    [] at = "disc.conn" ->      \* select { case conn = <-c.writeSem } ; hook disc.write
         IF L.prev = CLOSED THEN {Mv(NextOp(s, p, "Disconnect", "closed"), "disc.conn", "ok")}
         ELSE {Mv(x, "disc.conn", "ok") : x \in RecvW(s, p, "disc")}
    [] at = "disc.write" ->
         IF L.val \in {PENDING, DOWN} THEN {Mv([G(s, p, "disc.sigmid") EXCEPT !.online = FALSE, !.loc[p].err = "down"], "disc.write", "ok")}
         ELSE {Mv(G(s, p, "disc.wio"), "disc.write", "ok")}
    [] at = "disc.wio" ->       \* Write of DISCONNECT, then conn.Close(); deferred: blockSignalChan(onlineSig) ; hook disc.sigmid
         LET w == L.val IN
         {IF o = "ok" THEN Mv([G(CloseC([s EXCEPT !.conns[w].c2b = Append(@, Pk("DISCONNECT", 0, 0, FALSE, 0)), !.conns[w].tail = FALSE], w), p, "disc.sigmid")
                               EXCEPT !.online = FALSE, !.loc[p].err = ""], "conn.Write", o)
          ELSE Mv([G(CloseC(PayW(s, w, o), w), p, "disc.sigmid") EXCEPT !.online = FALSE, !.loc[p].err = "submit"], "conn.Write", o)
          : o \in WriteOutcomes(s, w)} \cup Partial(s, w)
    [] at = "disc.sigmid" ->    \* clearSignalChan(offlineSig) ; close(writeSem) ; close(connSem) ; return
         {Mv(NextOp([s EXCEPT !.offline = TRUE, !.writeSem = CLOSED, !.connSem = CLOSED], p, "Disconnect", L.err), "disc.sigmid", "ok")}
    [] OTHER -> {}

(* ----------------------------------------------------------------------- *)
(* The abort goroutine of dialAndConnect                                   *)

AbortMoves(s) ==
  CASE s.abortSt = "ctx" ->   \* parked at abort.ctx: conn.Close() ; abort <- ErrClosed ; hook abort.sent
         {Mv([CloseC(s, s.loc["rd"].conn) EXCEPT !.abortSt = "sent"], "abort.ctx", "ok")}
    [] s.abortSt = "sent" -> {Mv([s EXCEPT !.abortSt = "end.sent"], "abort.sent", "ok")}
    [] s.abortSt = "done" -> {Mv([s EXCEPT !.abortSt = "end.done"], "abort.done", "ok")}
    [] OTHER -> {}

\* The goroutine leaves its select as soon as one case is ready (there is no gate before the select).
\* When both are ready Go chooses at random; those runs end in states that the two orders of
\* "cancel" and "close(done)" reach anyway, so the first case to become ready is taken here.
AbortWake(s) ==
  IF s.abortSt # "wait" THEN s
  ELSE IF s.ctxDone THEN [s EXCEPT !.abortSt = "ctx"]
  ELSE IF s.doneClosed THEN [s EXCEPT !.abortSt = "done"]
  ELSE s

(* ----------------------------------------------------------------------- *)
(* The broker consumes the next complete client packet and reacts.         *)

BrokerReact(s, c) ==
  LET cn == s.conns[c]  p == cn.c2b[cn.taken + 1]  b == s.broker
      reply(x) == [s EXCEPT !.conns[c].taken = @ + 1, !.conns[c].b2c = @ \o x]
      \* a CONNECT takes the session over: the broker drops the older connections of this client
      \* (MQTT-3.1.4-2), so nothing written there is processed any more
      takeover(x) == [x EXCEPT !.conns = [i \in DOMAIN x.conns |->
                         IF i < c THEN [x.conns[i] EXCEPT !.taken = Len(x.conns[i].c2b), !.eof = TRUE] ELSE x.conns[i]]]
      \* on a reconnect the broker retransmits what the client has not acknowledged yet
      redo == LET pend == SelectSeq(b.out, LAMBDA m : m.state # "done")
              IN [i \in DOMAIN pend |-> IF pend[i].state = "sent" THEN Pk("PUBLISH", pend[i].id, pend[i].tag, TRUE, pend[i].qos)
                                         ELSE Pk("PUBREL", pend[i].id, 0, FALSE, 0)]
      setOut(x, id, from, to) == [x EXCEPT !.broker.out = [i \in DOMAIN x.broker.out |->
                                   IF x.broker.out[i].id = id /\ x.broker.out[i].state \in from
                                   THEN [x.broker.out[i] EXCEPT !.state = to] ELSE x.broker.out[i]]]
  IN CASE p.t = "CONNECT" -> [takeover(reply(<<Pk("CONNACK", 0, 0, FALSE, 0)>> \o redo)) EXCEPT !.broker.session = TRUE]
       [] p.t = "PUBACK" -> setOut(reply(<<>>), p.id, {"sent"}, "done")
       [] p.t = "PUBREC" -> setOut(reply(<<Pk("PUBREL", p.id, 0, FALSE, 0)>>), p.id, {"sent", "rec"}, "rec")
       [] p.t = "PUBCOMP" -> setOut(reply(<<>>), p.id, {"rec"}, "done")
       [] p.t = "PUBLISH" /\ p.qos = 1 -> [reply(<<Pk("PUBACK", p.id, 0, FALSE, 0)>>) EXCEPT !.broker.delivered = Append(@, p.tag)]
       [] p.t = "PUBLISH" /\ p.qos = 2 ->
            IF p.id \in b.awaiting THEN reply(<<Pk("PUBREC", p.id, 0, FALSE, 0)>>)
            ELSE [reply(<<Pk("PUBREC", p.id, 0, FALSE, 0)>>) EXCEPT !.broker.awaiting = @ \cup {p.id}, !.broker.delivered = Append(@, p.tag)]
       [] p.t = "PUBREL" -> [reply(<<Pk("PUBCOMP", p.id, 0, FALSE, 0)>>) EXCEPT !.broker.awaiting = @ \ {p.id}]
       [] p.t = "PINGREQ" -> reply(<<Pk("PINGRESP", 0, 0, FALSE, 0)>>)
       [] p.t = "SUBSCRIBE" -> reply(<<Pk("SUBACK", p.id, 0, FALSE, 0)>>)
       [] p.t = "UNSUBSCRIBE" -> reply(<<Pk("UNSUBACK", p.id, 0, FALSE, 0)>>)
       [] OTHER -> reply(<<>>)

BrokerMoves(s) ==
  {[s |-> BrokerReact(s, c), c |-> c] : c \in {x \in DOMAIN s.conns : s.conns[x].taken < Len(s.conns[x].c2b) /\ ~s.conns[x].dead /\ ~s.conns[x].eof}}

\* The broker publishes the next message of InMsgs on the live connection (lowest free identifier).
LiveConn(s) == IF s.conns = <<>> THEN 0 ELSE
               LET c == Len(s.conns) IN IF s.conns[c].taken > 0 /\ ~s.conns[c].dead /\ ~s.conns[c].eof /\ ~s.conns[c].closed THEN c ELSE 0
FreeId(s) == CHOOSE i \in 1..(Len(s.broker.out) + 1) : (\A j \in DOMAIN s.broker.out : s.broker.out[j].state = "done" \/ s.broker.out[j].id # i)
                                                         /\ \A k \in 1..(i - 1) : \E j \in DOMAIN s.broker.out : s.broker.out[j].state # "done" /\ s.broker.out[j].id = k
PublishMoves(s) ==
  LET c == LiveConn(s) IN
  IF c = 0 \/ s.broker.nextIn > Len(InMsgs) THEN {}
  ELSE LET m == InMsgs[s.broker.nextIn]
           id == IF m.qos = 0 THEN 0 ELSE FreeId(s)
           pk == Pk("PUBLISH", id, m.tag, FALSE, m.qos)
       IN {[s |-> [s EXCEPT !.conns[c].b2c = Append(@, pk), !.broker.nextIn = @ + 1,
                            !.broker.out = IF m.qos = 0 THEN @ ELSE Append(@, [id |-> id, qos |-> m.qos, tag |-> m.tag, state |-> "sent"])],
            c |-> c, pk |-> pk]}

(* ----------------------------------------------------------------------- *)
(* The process stops; AdoptSession (request.go) rebuilds a client from the *)
(* Persistence.  Everything but the Persistence, the network and the       *)
(* broker dies with the process.                                           *)

IdOf(k) == k % IdMod
IsMark(k) == k >= MarkFlag
Succ(p, n) == IdOf(n) - IdOf(p) = 1 \/ (IdOf(n) = 0 /\ IdOf(p) = IdMod - 1)
BySseq(S, K) == SortSeq(SetToSeq(K), LAMBDA a, b : S[a].sseq < S[b].sseq)
\* cleanSequence: the longest contiguous tail, one warning per cut
RECURSIVE CleanFrom(_, _, _)
CleanFrom(q, i, w) == IF i > Len(q) THEN [keys |-> q, warn |-> w]
                      ELSE IF Succ(q[i - 1], q[i]) THEN CleanFrom(q, i + 1, w)
                      ELSE CleanFrom(SubSeq(q, i, Len(q)), 2, w + 1)
Clean(q) == IF Len(q) < 2 THEN [keys |-> q, warn |-> 0] ELSE CleanFrom(q, 2, 0)
MaxOf(S) == IF S = {} THEN 0 ELSE CHOOSE x \in S : \A y \in S : y <= x

Adopt(S) ==
  LET out(kind, l) == {k \in DOMAIN S : ~IsMark(k) /\ S[k].kind = kind /\ k \div IdMod = Space(l) \div IdMod}
      p1 == Clean(BySseq(S, out("PUB", 1)))
      p2 == Clean(BySseq(S, out("PUB", 2)))
      r0 == Clean(BySseq(S, {k \in DOMAIN S : ~IsMark(k) /\ S[k].kind = "REL"}))
      gap == p2.keys # <<>> /\ r0.keys # <<>> /\ ~Succ(r0.keys[Len(r0.keys)], p2.keys[1])
      rels == IF gap /\ ~DEV_F10 THEN <<>> ELSE r0.keys     \* pinned tree: the gap was reported, the PUBRELs kept (F10)
      acked == IF p1.keys = <<>> THEN 0 ELSE IdOf(p1.keys[1])
      last1 == IF p1.keys = <<>> THEN 0 ELSE IdOf(p1.keys[Len(p1.keys)])
      acc1 == IF p1.keys = <<>> THEN 0 ELSE (IF last1 < acked THEN last1 + IdMod ELSE last1) + 1
      completed == IF rels # <<>> THEN IdOf(rels[1]) ELSE IF p2.keys # <<>> THEN IdOf(p2.keys[1]) ELSE 0
      received == IF rels = <<>> THEN completed
                  ELSE LET r == IdOf(rels[Len(rels)]) + 1 IN IF r < completed THEN r + IdMod ELSE r
      last2 == IF p2.keys = <<>> THEN 0 ELSE IdOf(p2.keys[Len(p2.keys)])
      acc2 == IF p2.keys # <<>> THEN (IF last2 < received THEN last2 + IdMod ELSE last2) + 1
              ELSE IF rels # <<>> /\ DEV_F19 THEN 0          \* pinned tree: acceptN stayed 0 with only PUBRELs stored (F19)
              ELSE received
      tags(q) == [i \in DOMAIN q |-> S[q[i]].tag]
  IN [acked |-> acked, acceptN |-> <<acc1, acc2>>, completed |-> completed, received |-> received,
      queue |-> <<tags(p1.keys), tags(rels) \o tags(p2.keys)>>,
      nwarn |-> p1.warn + p2.warn + r0.warn + (IF gap THEN 1 ELSE 0),
      rseq |-> IF DEV_F2 THEN 0 ELSE MaxOf({S[k].sseq : k \in {x \in DOMAIN S : ~IsMark(x)}})]   \* pinned tree restarted at 0 (F2)

\* records lost or altered while the process is down: a removed record is simply gone, an altered one fails its
\* checksum, is deleted by AdoptSession and reported
Damages(s) ==
  LET out == {x \in DOMAIN s.store : ~IsMark(x)}
      left == MaxDamage - s.damaged
      sets == {D \in SUBSET out : D # {} /\ Cardinality(D) <= left}
      without(D) == [k \in DOMAIN s.store \ D |-> s.store[k]]
  IN {[store |-> s.store, n |-> 0, w |-> 0, keys |-> <<>>, how |-> "none"]} \cup
     {[store |-> without(D), n |-> Cardinality(D), w |-> IF h = "flip" THEN Cardinality(D) ELSE 0, keys |-> SetToSeq(D), how |-> h]
      : D \in sets, h \in {"remove", "flip"}}

Restarts(s) ==
  IF s.stops >= MaxStops THEN {}
  ELSE {LET a == Adopt(d.store) IN
        [s |-> [St0 EXCEPT !.store = d.store, !.rseq = a.rseq, !.broker = s.broker, !.exch = s.exch, !.rets = s.rets,
                           !.calls = s.calls, !.budget = s.budget, !.gen = s.gen + 1, !.stops = s.stops + 1,
                           !.warn = a.nwarn, !.damaged = s.damaged + d.n,
                           !.conns = [i \in DOMAIN s.conns |-> [s.conns[i] EXCEPT !.dead = TRUE]],
                           !.acked = a.acked, !.acceptN = a.acceptN, !.submitN = a.acceptN,
                           !.completed = a.completed, !.received = a.received, !.queue = a.queue,
                           !.pc = [p \in Procs |-> IF p = "rd" \/ (s.gen = 1 /\ p \in DOMAIN Script2 /\ Script2[p] # <<>>)
                                                   THEN "call" ELSE "idle"]],
         damage |-> d.keys, how |-> d.how, nwarn |-> a.nwarn + d.w]
        : d \in Damages(s)}

(* ----------------------------------------------------------------------- *)

MovesOf(s, p) ==
  IF p = "rd" THEN RdMoves(s)
  ELSE IF p = "abort" THEN AbortMoves(s)
  ELSE IF p \in {"term1", "term2"} THEN TermMoves(s, p)
  ELSE IF s.pc[p] = "idle" THEN {}
  ELSE IF Ops(p)[s.loc[p].op].m = "Close" THEN CloseMoves(s, p)
  ELSE IF Ops(p)[s.loc[p].op].m = "Disconnect" THEN DiscMoves(s, p)
  ELSE IF Ops(p)[s.loc[p].op].m \in {"Publish", "Ping", "Subscribe", "Unsubscribe"} THEN ReqMoves(s, p)
  ELSE PubMoves(s, p)

\* a process blocked on the write semaphore (after it closed the connection to interrupt the holder) gets it
SemWake(s) ==   \* (channel receivers are served in the order they blocked)
  IF s.writeSem = HELD \/ s.wq = <<>> THEN {}
  ELSE LET p == Head(s.wq) IN {TakeW([s EXCEPT !.wq = Tail(@)], p, s.loc[p].blk)}
WriteGates == {"k.wconn", "rs.write", "wn.write", "wn.write1", "wn.write2", "lw.write1", "lw.write", "disc.wio"}
ConnAt(s, p) == IF p = "rd" /\ s.pc[p] \in {"k.wconn", "rs.write"} THEN s.loc[p].conn ELSE s.loc[p].val

\* A move of p, settled to the next gate of the read routine where needed.  A process that comes to a write on a
\* connection which was closed meanwhile does not get as far as Write: SetWriteDeadline fails first, so the failure
\* branch of that write is taken within the same move.  (A process that is already inside Write when the connection
\* gets closed stays at its gate and is released with the outcome "closed".)
RECURSIVE Norm(_, _)
Norm(s, p) ==
  LET r == SettleAll(s) IN
  IF ~r.ok THEN r
  ELSE IF r.s.pc[p] \in WriteGates /\ ConnAt(r.s, p) >= 1 /\ r.s.conns[ConnAt(r.s, p)].closed
       THEN Norm((CHOOSE mv \in MovesOf(r.s, p) : mv.o = "closed").s, p)
       ELSE r
\* Go hands a released semaphore to a goroutine that is blocked on it at once: nobody else can slip in between.
RECURSIVE EagerSem(_)
EagerSem(s) == IF SemWake(s) = {} THEN {s} ELSE UNION {EagerSem(t) : t \in SemWake(s)}   \* (a closed semaphore releases every waiter)
Settled(mv, p) == LET r == Norm(mv.s, p) IN IF r.ok THEN {[mv EXCEPT !.s = s3] : s3 \in EagerSem(AbortWake(r.s))} ELSE {}

\* The scalar projection that VerifSnapshot takes of the real client (verif_on.go); the replay compares it after every step.
SemName(v) == CASE v = PENDING -> "pending" [] v = DOWN -> "down" [] v = HELD -> "held" [] v = CLOSED -> "closed"
                [] v = NILCONN -> "nil" [] OTHER -> "conn"
SeqVal(s, l, v) == IF s.seqSem[l] = "held" THEN -1 ELSE IF s.seqSem[l] = "closed" THEN -2 ELSE v
Proj(s) == [acked |-> s.acked, received |-> s.received, completed |-> s.completed,
            accept1 |-> SeqVal(s, 1, s.acceptN[1]), accept2 |-> SeqVal(s, 2, s.acceptN[2]),
            submit1 |-> SeqVal(s, 1, s.submitN[1]), submit2 |-> SeqVal(s, 2, s.submitN[2]),
            q1 |-> Len(s.queue[1]), q2 |-> Len(s.queue[2]), pack |-> (s.pack # NoPk \/ s.pc["rd"] = "c.save"),   \* onPUBREC composes the PUBREL in pendingAck before the Save
            \* (a process blocked on the write semaphore takes it the instant it is released)
            wsem |-> SemName(s.writeSem),
            csem |-> SemName(s.connSem),
            ping |-> IF s.pingSlot = NoSlot THEN 0 ELSE 1, utx |-> Cardinality(DOMAIN s.subs),
            online |-> s.online, offline |-> s.offline]

\* A run may start from a Persistence that an earlier incarnation left behind (InitStore), possibly damaged: the
\* client of the first generation is then the one AdoptSession returns.  The broker has seen the transfers that
\* reached the PUBREL stage (it awaits their PUBREL and has forwarded them).
SeedDamages ==
  LET out == {x \in DOMAIN InitStore : ~IsMark(x)}
      without(D) == [k \in DOMAIN InitStore \ D |-> InitStore[k]]
  IN {[store |-> InitStore, keys |-> <<>>, how |-> "none", w |-> 0]} \cup
     {[store |-> without(D), keys |-> SetToSeq(D), how |-> h, w |-> IF h = "flip" THEN Cardinality(D) ELSE 0]
      : D \in {X \in SUBSET out : X # {} /\ Cardinality(X) <= InitDamage}, h \in {"remove", "flip"}}
Seeded(d) ==
  LET a == Adopt(d.store)
      rels == {k \in DOMAIN InitStore : ~IsMark(k) /\ InitStore[k].kind = "REL"}
  IN [St0 EXCEPT !.store = d.store, !.rseq = a.rseq, !.warn = a.nwarn, !.damaged = Len(d.keys),
                 !.acked = a.acked, !.acceptN = a.acceptN, !.submitN = a.acceptN,
                 !.completed = a.completed, !.received = a.received, !.queue = a.queue,
                 !.broker.session = TRUE, !.broker.awaiting = rels,
                 !.broker.delivered = [i \in 1..Cardinality(rels) |-> InitStore[SetToSeq(rels)[i]].tag]]
Init == IF InitStore = <<>> THEN st = St0 /\ hist = <<>>
        ELSE \E d \in SeedDamages :
               /\ st = Seeded(d)
               /\ hist = IF RecordHist
                         THEN [i \in DOMAIN d.keys |-> [env |-> "damage", key |-> d.keys[i], how |-> d.how]]
                              \o <<[env |-> "adopt", gen |-> 1, nwarn |-> Adopt(d.store).nwarn + d.w, x |-> Proj(Seeded(d))]>>
                         ELSE <<>>

ProcStep(p) ==
  \E mv \in MovesOf(st, p) : \E m2 \in Settled(mv, p) :
     /\ st' = m2.s
     /\ hist' = IF RecordHist THEN Append(hist, [p |-> p, at |-> m2.at, o |-> m2.o, x |-> Proj(m2.s)]) ELSE hist
Wake == \E s2 \in TermWake(st) \cup ReqWake(st) \cup SemWake(st) : st' = s2 /\ UNCHANGED hist
BrokerStep == \E b \in BrokerMoves(st) : st' = b.s /\ hist' = IF RecordHist THEN Append(hist, [env |-> "brecv", c |-> b.c, respond |-> TRUE]) ELSE hist

PublishStep == \E b \in PublishMoves(st) : st' = b.s /\ hist' = IF RecordHist THEN Append(hist, [env |-> "bsend", c |-> b.c, pkt |-> b.pk]) ELSE hist

RestartStep == \E r \in Restarts(st) :
   /\ st' = r.s
   /\ hist' = IF RecordHist
              THEN hist \o <<[env |-> "stop"]>> \o [i \in DOMAIN r.damage |-> [env |-> "damage", key |-> r.damage[i], how |-> r.how]]
                        \o <<[env |-> "adopt", gen |-> r.s.gen, nwarn |-> r.nwarn, x |-> Proj(r.s)]>>
              ELSE hist

QuitStep == \E q \in QuitMoves(st) : st' = q.s /\ hist' = IF RecordHist THEN Append(hist, [env |-> "quit", p |-> q.p]) ELSE hist

Next == (\E p \in Procs : ProcStep(p)) \/ Wake \/ BrokerStep \/ PublishStep \/ RestartStep \/ QuitStep
Spec == Init /\ [][Next]_vars

(* Fairness: every goroutine that can move eventually does (strongly fair: Go hands a channel value to a     *)
(* waiting receiver, so a waiter is not overtaken for ever); the broker answers; induced wake-ups happen.   *)
Fairness == (\A p \in Procs : SF_vars(ProcStep(p))) /\ WF_vars(Wake) /\ WF_vars(BrokerStep) /\ WF_vars(PublishStep)
LiveSpec == Spec /\ Fairness

Closers == {p \in Writers : \E i \in DOMAIN Ops(p) : Ops(p)[i].m \in {"Close", "Disconnect"}}
Budgeted == st.calls < MaxCalls      \* the application still invokes ReadSlices
\* C10: the read routine always gets back to a point where it waits for input, for its next invocation, or has ended
C10_ReaderProgress == []<>(st.pc["rd"] \in {"call", "r.read", "idle", "t.join"})
\* C01: every accepted publish completes (its exchange closes) unless the client gets closed
ExClosed(t) == Has(st.exch, t) /\ st.exch[t].closed
C01_Drained == \A t \in 1..9 : [](Has(st.exch, t) => <>(ExClosed(t) \/ st.ctxDone \/ ~Budgeted))
\* C12: Close returns, and so does the ReadSlices that follows
C12_Returns == \A p \in Closers : <>[](st.pc[p] = "idle")
C12_ReaderEnds == (Closers # {}) => <>[](st.pc["rd"] \in {"idle", "call"} \/ ~Budgeted)
\* C11: every request returns
C11_Returns == \A p \in Writers : <>[](st.pc[p] = "idle" \/ ~Budgeted)

(* ----------------------------------------------------------------------- *)
(* Properties of the design (state predicates over st).  The same clauses  *)
(* are evaluated by Monitor.tla on every trace recorded from the real code.*)

AllPk(c) == st.conns[c].c2b
PubIds(c, l) == SelectSeq(AllPk(c), LAMBDA p : p.t = "PUBLISH" /\ p.qos = l)
Ascending(seq) == \A i \in 1..(Len(seq) - 1) : ((seq[i + 1].id - seq[i].id + IdMod) % IdMod) \in 1..IdMod - 1

\* (Not under damage: when the only record of an exactly-once transfer is lost while the broker still awaits its
\* PUBREL, the adopted client starts its sequence anew, reuses the identifier, and the broker takes the new message
\* for the retransmission.  No listed property promises otherwise; DESIGN.md, observation O1.)
C01_NoForgedCompletion ==   \* an exchange closes only after the broker's final acknowledgement was produced for it
  st.damaged = 0 =>
  \A t \in DOMAIN st.exch : st.exch[t].closed => \E i \in DOMAIN st.broker.delivered : st.broker.delivered[i] = t
C03_ExactlyOnceDelivery ==  \* no exactly-once message is forwarded twice
  \A i, j \in DOMAIN st.broker.delivered :
     (i # j /\ st.broker.delivered[i] = st.broker.delivered[j]) =>
        \/ \E k \in Writers : \E n \in DOMAIN Ops(k) : Ops(k)[n].tag = st.broker.delivered[i] /\ LevelOf(Ops(k)[n].m) = 1
        \/ \E k \in DOMAIN InitStore : k < 49152 /\ InitStore[k].tag = st.broker.delivered[i]     \* (an at-least-once transfer of a seeded store)
C05_WireOrderIsIdOrder == \A c \in DOMAIN st.conns : Ascending(PubIds(c, 1)) /\ Ascending(PubIds(c, 2))
\* C08: a packet is incomplete on a connection only while its writer is between the two buffers of its vectored write,
\* or the connection has been closed because that write failed (or died with the process)
\* C08: once a packet was left incomplete on a connection (its writer gave up), nothing further is written there
WriterOn(s, c) == \E p \in Writers \cup {"rd"} : s.pc[p] \in WriteGates /\ ConnAt(s, p) = c
Abandoned(s, c) == s.conns[c].tail /\ ~WriterOn(s, c)
C08_NothingAfterIncomplete ==
  [][\A c \in DOMAIN st.conns : Abandoned(st, c) => (c \in DOMAIN st'.conns /\ st'.conns[c].c2b = st.conns[c].c2b /\ st'.conns[c].tail)]_vars
\* and only one process at a time is inside a write on a connection
C08_WholePackets == \A c \in DOMAIN st.conns : Cardinality({p \in Writers \cup {"rd"} : st.pc[p] \in WriteGates /\ ConnAt(st, p) = c}) <= 1
C12_Signals == ~(st.online /\ st.offline)
\* C04 (design): an exactly-once message whose marker is saved is not returned again before PUBREL
Returned(tag) == Cardinality({i \in DOMAIN st.rets["rd"] : st.rets["rd"][i].err = "msg" /\ st.rets["rd"][i].m = tag})
C07_AckedOnlyIfReturned == \A c \in DOMAIN st.conns : \A i \in DOMAIN st.conns[c].c2b :
   LET p == st.conns[c].c2b[i] IN
   p.t \in {"PUBACK", "PUBREC"} => \E j \in DOMAIN st.broker.out : st.broker.out[j].id = p.id
\* C11: a PINGRESP is never handed to a Ping that has not submitted its PINGREQ
C11_PongIsOwn == ~st.strayPong
C17_Bounded == Len(st.queue[1]) <= AMax /\ Len(st.queue[2]) <= EMax
C18_ConnectFirst == \A c \in DOMAIN st.conns : AllPk(c) # <<>> => AllPk(c)[1].t = "CONNECT"
\* C02: whatever the instant, AdoptSession would rebuild exactly what the live client holds: the pending transfers in
\* their order, each at its stage, the counters modulo the identifier space, without a warning (nothing was damaged)
C02_AdoptMatchesLive ==
  (st.damaged = 0) =>
  LET a == Adopt(st.store) IN
  /\ a.nwarn = 0
  /\ st.seqSem[1] # "closed" => a.queue[1] = st.queue[1]     \* (a closed client has handed its queues back)
  /\ st.seqSem[2] # "closed" => a.queue[2] = st.queue[2]
  /\ st.queue[1] # <<>> => (a.acked = st.acked % IdMod /\ a.acceptN[1] - a.acked = Len(st.queue[1]))
  /\ st.queue[2] # <<>> => (a.completed = st.completed % IdMod /\ a.received - a.completed = st.received - st.completed
                            /\ a.acceptN[2] - a.completed = Len(st.queue[2]))
C02_NoWarnings == st.damaged = 0 => st.warn = 0
\* C16: every record the resend needs exists: a damaged store never leaves a client whose every connect fails
C16_ResendFindsRecords == st.pc["rd"] = "rs.load" => Has(st.store, KeyOf(st.loc["rd"].lvl, st.loc["rd"].seqNo))
\* C16: the pending transfers are records that were genuinely saved, in their original relative order
\* C16: a new publish never takes the key of a record that is still pending
C16_NoKeyCollision == \A p \in Writers : st.pc[p] = "q.save" =>
   LET l == LevelOf(Ops(p)[st.loc[p].op].m) IN ~Has(st.store, KeyOf(l, st.acceptN[l]))
C16_PendingAreStored == \A l \in 1..2 : \A i \in DOMAIN st.queue[l] : \E k \in DOMAIN st.store : ~IsMark(k) /\ st.store[k].tag = st.queue[l][i]
TypeOK == (st.wq # <<>> => st.writeSem = HELD) /\ st.writeSem \in {PENDING, DOWN, HELD, CLOSED} \cup (1..MaxConns) /\ st.connSem \in {NILCONN, HELD, CLOSED} \cup (1..MaxConns)
=============================================================================
