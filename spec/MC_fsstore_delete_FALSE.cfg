CONSTANTS HadOld = FALSE Op = "delete" MayFail = TRUE
SPECIFICATION Spec
INVARIANTS C19_OldOrNew C19_ListLoadable C19_FlushedBeforeVisible C19_FailedSaveKeepsOld C19_KilledKeepsOldOrNew
CHECK_DEADLOCK FALSE
