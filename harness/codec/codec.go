// Package codec is the harness's own MQTT 3.1.1 decoder/encoder, written from the
// OASIS specification and independent of the package under test (trusted base).
package codec

import (
	"errors"
	"fmt"
)

// Packet is the structured form of a control packet.
type Packet struct {
	T       string   `json:"t"`      // CONNECT, CONNACK, PUBLISH, ...
	Flags   int      `json:"fl"`     // low nibble of the first byte
	ID      int      `json:"id"`     // packet identifier (0 = none)
	QoS     int      `json:"qos"`    // PUBLISH
	Dup     bool     `json:"dup"`    // PUBLISH
	Retain  bool     `json:"retain"` // PUBLISH
	Topic   string   `json:"topic"`  // PUBLISH
	Len     int      `json:"len"`    // PUBLISH payload length
	Tag     int      `json:"tag"`    // PUBLISH: message tag found in the payload (0 = none)
	Sum     uint32   `json:"sum"`    // PUBLISH: FNV-1a of the payload
	Filt    []string `json:"filt"`   // SUBSCRIBE / UNSUBSCRIBE
	Codes   []int    `json:"codes"`  // SUBSCRIBE requested QoS / SUBACK return codes
	SP      int      `json:"sp"`     // CONNACK flags byte
	RC      int      `json:"rc"`     // CONNACK return code
	Size    int      `json:"size"`   // total encoded size
	RLB     int      `json:"rlb"`    // bytes used by the remaining-length field
	Conn    *Connect `json:"conn,omitempty"`
	Bad     string   `json:"bad"` // why the packet is not well-formed ("" = well-formed)
	Payload []byte   `json:"-"`
}

// Connect holds the decoded fields of a CONNECT packet.
type Connect struct {
	Proto     string `json:"proto"`
	Level     int    `json:"level"`
	Flags     int    `json:"flags"`
	KeepAlive int    `json:"keepalive"`
	ClientID  string `json:"cid"`
	HasWill   bool   `json:"haswill"`
	WillTopic string `json:"wtopic"`
	WillMsg   string `json:"wmsg"`
	WillQoS   int    `json:"wqos"`
	WillRet   bool   `json:"wretain"`
	HasUser   bool   `json:"hasuser"`
	User      string `json:"user"`
	HasPass   bool   `json:"haspass"`
	Pass      string `json:"pass"`
	Clean     bool   `json:"clean"`
}

var typeNames = [16]string{"RESERVED0", "CONNECT", "CONNACK", "PUBLISH", "PUBACK", "PUBREC", "PUBREL", "PUBCOMP",
	"SUBSCRIBE", "SUBACK", "UNSUBSCRIBE", "UNSUBACK", "PINGREQ", "PINGRESP", "DISCONNECT", "RESERVED15"}

// TypeCode returns the numeric code of a type name.
func TypeCode(name string) int {
	for i, n := range typeNames {
		if n == name {
			return i
		}
	}
	return -1
}

// ErrIncomplete means more bytes are needed.
var ErrIncomplete = errors.New("codec: incomplete packet")

// Frame determines the size of the first packet in b: header length and remaining length.
func Frame(b []byte) (hdr, rem int, err error) {
	if len(b) < 2 {
		return 0, 0, ErrIncomplete
	}
	mult := 1
	for i := 1; ; i++ {
		if i >= len(b) {
			return 0, 0, ErrIncomplete
		}
		rem += int(b[i]&0x7f) * mult
		if b[i]&0x80 == 0 {
			return i + 1, rem, nil
		}
		if i == 4 {
			return 0, 0, errors.New("codec: remaining length exceeds 4 bytes")
		}
		mult *= 128
	}
}

func fnv(b []byte) uint32 {
	h := uint32(2166136261)
	for _, x := range b {
		h ^= uint32(x)
		h *= 16777619
	}
	return h
}

// TagOf finds the message tag the harness embeds in payloads: "#<decimal>#" at the start.
func TagOf(payload []byte) int {
	if len(payload) < 3 || payload[0] != '#' {
		return 0
	}
	n := 0
	for i := 1; i < len(payload) && i < 12; i++ {
		c := payload[i]
		if c == '#' {
			return n
		}
		if c < '0' || c > '9' {
			return 0
		}
		n = n*10 + int(c-'0')
	}
	return 0
}

// Payload builds a payload of the given size (>= len of the tag text) carrying tag.
func Payload(tag, size int) []byte {
	s := []byte(fmt.Sprintf("#%d#", tag))
	for len(s) < size {
		s = append(s, byte('a'+len(s)%23))
	}
	return s
}

type rd struct {
	b   []byte
	i   int
	bad string
}

func (r *rd) u8() int {
	if r.i+1 > len(r.b) {
		r.fail("short")
		return 0
	}
	v := r.b[r.i]
	r.i++
	return int(v)
}
func (r *rd) u16() int {
	if r.i+2 > len(r.b) {
		r.fail("short")
		r.i = len(r.b)
		return 0
	}
	v := int(r.b[r.i])<<8 | int(r.b[r.i+1])
	r.i += 2
	return v
}
func (r *rd) str() string {
	n := r.u16()
	if r.i+n > len(r.b) {
		r.fail("string exceeds packet")
		r.i = len(r.b)
		return ""
	}
	s := string(r.b[r.i : r.i+n])
	r.i += n
	return s
}
func (r *rd) fail(s string) {
	if r.bad == "" {
		r.bad = s
	}
}
func (r *rd) rest() []byte { return r.b[r.i:] }

// Decode parses the first packet of b. It returns ErrIncomplete when b holds only part of it.
// A complete packet that is not well-formed is returned with Bad set.
func Decode(b []byte) (*Packet, error) {
	hdr, rem, err := Frame(b)
	if err != nil {
		return nil, err
	}
	if len(b) < hdr+rem {
		return nil, ErrIncomplete
	}
	p := &Packet{T: typeNames[b[0]>>4], Flags: int(b[0] & 15), Size: hdr + rem, RLB: hdr - 1, Filt: []string{}, Codes: []int{}}
	// minimal remaining-length encoding
	if hdr > 2 && b[hdr-1] == 0 {
		p.Bad = "remaining length not minimal"
	}
	r := &rd{b: b[hdr : hdr+rem]}
	wantFlags := 0
	switch p.T {
	case "PUBLISH":
		p.Dup, p.QoS, p.Retain = b[0]&8 != 0, int(b[0]>>1)&3, b[0]&1 != 0
		wantFlags = p.Flags
		p.Topic = r.str()
		if p.QoS > 0 {
			p.ID = r.u16()
			if p.ID == 0 && r.bad == "" {
				r.fail("packet identifier zero")
			}
		}
		if p.QoS == 3 {
			r.fail("QoS 3")
		}
		p.Payload = r.rest()
		p.Len = len(p.Payload)
		p.Tag = TagOf(p.Payload)
		p.Sum = fnv(p.Payload)
		r.i = len(r.b)
	case "PUBACK", "PUBREC", "PUBCOMP", "UNSUBACK":
		p.ID = r.u16()
	case "PUBREL":
		wantFlags = 2
		p.ID = r.u16()
	case "SUBSCRIBE":
		wantFlags = 2
		p.ID = r.u16()
		for r.i < len(r.b) && r.bad == "" {
			p.Filt = append(p.Filt, r.str())
			p.Codes = append(p.Codes, r.u8())
		}
		if len(p.Filt) == 0 {
			r.fail("no filters")
		}
	case "UNSUBSCRIBE":
		wantFlags = 2
		p.ID = r.u16()
		for r.i < len(r.b) && r.bad == "" {
			p.Filt = append(p.Filt, r.str())
		}
		if len(p.Filt) == 0 {
			r.fail("no filters")
		}
	case "SUBACK":
		p.ID = r.u16()
		for r.i < len(r.b) {
			p.Codes = append(p.Codes, r.u8())
		}
	case "CONNACK":
		p.SP = r.u8()
		p.RC = r.u8()
	case "CONNECT":
		c := &Connect{}
		p.Conn = c
		c.Proto = r.str()
		c.Level = r.u8()
		c.Flags = r.u8()
		c.KeepAlive = r.u16()
		c.ClientID = r.str()
		c.Clean = c.Flags&2 != 0
		if c.Flags&1 != 0 {
			r.fail("reserved connect flag")
		}
		if c.Flags&4 != 0 {
			c.HasWill = true
			c.WillQoS = (c.Flags >> 3) & 3
			c.WillRet = c.Flags&32 != 0
			c.WillTopic = r.str()
			c.WillMsg = r.str()
		} else if c.Flags&(8|16|32) != 0 {
			r.fail("will flags without will")
		}
		if c.Flags&128 != 0 {
			c.HasUser = true
			c.User = r.str()
		}
		if c.Flags&64 != 0 {
			c.HasPass = true
			c.Pass = r.str()
			if !c.HasUser {
				r.fail("password without user name")
			}
		}
		if c.Proto != "MQTT" || c.Level != 4 {
			r.fail("protocol name/level")
		}
	case "PINGREQ", "PINGRESP", "DISCONNECT":
	default:
		r.fail("reserved type")
	}
	if r.bad == "" && r.i != len(r.b) {
		r.fail("trailing bytes")
	}
	if r.bad == "" && p.Flags != wantFlags {
		r.fail("header flags")
	}
	if p.Bad == "" {
		p.Bad = r.bad
	}
	return p, nil
}

func remLen(n int) []byte {
	var b []byte
	for {
		d := byte(n % 128)
		n /= 128
		if n > 0 {
			d |= 0x80
		}
		b = append(b, d)
		if n == 0 {
			return b
		}
	}
}

func str16(s string) []byte {
	return append([]byte{byte(len(s) >> 8), byte(len(s))}, s...)
}

// Encode produces the canonical bytes of a packet (payload from p.Payload).
func Encode(p *Packet) []byte {
	var body []byte
	first := byte(TypeCode(p.T) << 4)
	switch p.T {
	case "PUBLISH":
		if p.Dup {
			first |= 8
		}
		first |= byte(p.QoS << 1)
		if p.Retain {
			first |= 1
		}
		body = append(body, str16(p.Topic)...)
		if p.QoS > 0 {
			body = append(body, byte(p.ID>>8), byte(p.ID))
		}
		body = append(body, p.Payload...)
	case "PUBACK", "PUBREC", "PUBCOMP", "UNSUBACK":
		body = []byte{byte(p.ID >> 8), byte(p.ID)}
	case "PUBREL":
		first |= 2
		body = []byte{byte(p.ID >> 8), byte(p.ID)}
	case "SUBACK":
		body = []byte{byte(p.ID >> 8), byte(p.ID)}
		for _, c := range p.Codes {
			body = append(body, byte(c))
		}
	case "SUBSCRIBE":
		first |= 2
		body = []byte{byte(p.ID >> 8), byte(p.ID)}
		for i, f := range p.Filt {
			body = append(body, str16(f)...)
			body = append(body, byte(p.Codes[i]))
		}
	case "UNSUBSCRIBE":
		first |= 2
		body = []byte{byte(p.ID >> 8), byte(p.ID)}
		for _, f := range p.Filt {
			body = append(body, str16(f)...)
		}
	case "CONNACK":
		body = []byte{byte(p.SP), byte(p.RC)}
	case "CONNECT":
		c := p.Conn
		body = append(body, str16("MQTT")...)
		body = append(body, 4, byte(c.Flags), byte(c.KeepAlive>>8), byte(c.KeepAlive))
		body = append(body, str16(c.ClientID)...)
		if c.HasWill {
			body = append(body, str16(c.WillTopic)...)
			body = append(body, str16(c.WillMsg)...)
		}
		if c.HasUser {
			body = append(body, str16(c.User)...)
		}
		if c.HasPass {
			body = append(body, str16(c.Pass)...)
		}
	}
	first |= byte(p.Flags) & 0 // flags are implied by the type
	out := append([]byte{first}, remLen(len(body))...)
	return append(out, body...)
}

// Stream splits a byte stream into complete packets incrementally.
type Stream struct {
	buf  []byte
	Pkts []*Packet // every complete packet so far
	Raw  [][]byte
	Err  string // framing error (stream unusable from here)
}

// Feed appends bytes and returns the packets that became complete.
func (s *Stream) Feed(b []byte) []*Packet {
	s.buf = append(s.buf, b...)
	var got []*Packet
	for s.Err == "" {
		hdr, rem, err := Frame(s.buf)
		if err == ErrIncomplete {
			break
		}
		if err != nil {
			s.Err = err.Error()
			break
		}
		if len(s.buf) < hdr+rem {
			break
		}
		raw := append([]byte(nil), s.buf[:hdr+rem]...)
		p, _ := Decode(raw)
		s.buf = s.buf[hdr+rem:]
		s.Pkts = append(s.Pkts, p)
		s.Raw = append(s.Raw, raw)
		got = append(got, p)
	}
	return got
}

// Tail is the number of bytes after the last complete packet.
func (s *Stream) Tail() int { return len(s.buf) }

// TailBytes returns the incomplete remainder.
func (s *Stream) TailBytes() []byte { return s.buf }
