module verif/harness

go 1.21

require github.com/pascaldekloe/mqtt v0.0.0

replace github.com/pascaldekloe/mqtt => /repo
