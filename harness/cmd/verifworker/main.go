// Command verifworker executes stimulus produced by TLC against the code in /repo
// (built with -tags verif) and writes event traces for TLC to judge.
package main

import (
	"fmt"
	"os"
	"time"

	"verif/harness/codecrun"
	"verif/harness/mqtttestrun"
	"verif/harness/ruggedrun"
	"verif/harness/runner"
)

func main() {
	if len(os.Args) < 2 {
		fmt.Fprintln(os.Stderr, "usage: verifworker <engine> [args]")
		os.Exit(2)
	}
	var err error
	switch os.Args[1] {
	case "mqtttest":
		silence := 150 * time.Millisecond
		if len(os.Args) > 2 {
			if d, e := time.ParseDuration(os.Args[2]); e == nil {
				silence = d
			}
		}
		err = mqtttestrun.Run(os.Stdin, os.Stdout, silence)
	case "run":
		err = runner.RunAll(os.Stdin, os.Stdout)
	case "codec":
		err = codecrun.Run(os.Stdin, os.Stdout)
	case "rugged":
		err = ruggedrun.Run(os.Stdin, os.Stdout)
	default:
		err = fmt.Errorf("unknown engine %q", os.Args[1])
	}
	if err != nil {
		fmt.Fprintln(os.Stderr, "verifworker:", err)
		os.Exit(2)
	}
}
