// Command fsprobe performs single operations of mqtt.FileSystem (the store under test, from /repo)
// so that the driver can trace, kill and fault-inject them from outside (property C19).
package main

import (
	"encoding/json"
	"fmt"
	"hash/fnv"
	"net"
	"os"
	"runtime"
	"sort"
	"strconv"
	"sync"

	"github.com/pascaldekloe/mqtt"
)

func value(size int, seed int) []byte {
	b := make([]byte, size)
	for i := range b {
		b[i] = byte(seed*131 + i*7 + i/251)
	}
	return b
}

func sum(b []byte) uint32 {
	h := fnv.New32a()
	h.Write(b)
	return h.Sum32()
}

type result struct {
	Op    string         `json:"op"`
	Err   string         `json:"err"`
	Len   int            `json:"len"`
	Sum   uint32         `json:"sum"`
	Nil   bool           `json:"nil"`
	Keys  []uint         `json:"keys"`
	Loads map[string]any `json:"loads,omitempty"`
}

func main() {
	// every system call of save and delete on the initial thread: strace counts calls per thread
	runtime.LockOSThread()
	if len(os.Args) < 3 {
		fmt.Fprintln(os.Stderr, "usage: fsprobe <op> <dir> [key size seed]")
		os.Exit(2)
	}
	op, dir := os.Args[1], os.Args[2]
	p := mqtt.FileSystem(dir)
	arg := func(i int) int {
		if len(os.Args) > i {
			n, _ := strconv.Atoi(os.Args[i])
			return n
		}
		return 0
	}
	res := result{Op: op, Keys: []uint{}}
	switch op {
	case "save":
		v := value(arg(4), arg(5))
		// two buffers, as the client hands them to the store
		cut := len(v) / 3
		err := p.Save(uint(arg(3)), net.Buffers{v[:cut], v[cut:]})
		if err != nil {
			res.Err = err.Error()
		}
	case "delete":
		if err := p.Delete(uint(arg(3))); err != nil {
			res.Err = err.Error()
		}
	case "state":
		// what a fresh process sees: List, and Load of every listed key plus the keys given
		keys, err := p.List()
		if err != nil {
			res.Err = "list: " + err.Error()
		}
		sort.Slice(keys, func(i, j int) bool { return keys[i] < keys[j] })
		res.Keys = keys
		if res.Keys == nil {
			res.Keys = []uint{}
		}
		res.Loads = map[string]any{}
		want := append([]uint{}, keys...)
		for i := 3; i < len(os.Args); i++ {
			want = append(want, uint(arg(i)))
		}
		for _, k := range want {
			v, err := p.Load(k)
			e := map[string]any{"nil": v == nil, "len": len(v), "sum": sum(v), "err": ""}
			if err != nil {
				e["err"] = err.Error()
			}
			res.Loads[strconv.Itoa(int(k))] = e
		}
	case "concurrent":
		// Save, Load, Delete and List over distinct keys at the same time
		var wg sync.WaitGroup
		errs := make(chan string, 64)
		for g := 0; g < 4; g++ {
			wg.Add(1)
			go func(g int) {
				defer wg.Done()
				key := uint(100 + g)
				for i := 0; i < 25; i++ {
					v := value(200+g, i)
					if err := p.Save(key, net.Buffers{v}); err != nil {
						errs <- err.Error()
					}
					got, err := p.Load(key)
					if err != nil || sum(got) != sum(v) {
						errs <- fmt.Sprintf("key %d: load after save differs (%v)", key, err)
					}
					if _, err := p.List(); err != nil {
						errs <- err.Error()
					}
					if i%5 == 4 {
						if err := p.Delete(key); err != nil {
							errs <- err.Error()
						}
						if got, _ := p.Load(key); got != nil {
							errs <- fmt.Sprintf("key %d present after delete", key)
						}
					}
				}
			}(g)
		}
		wg.Wait()
		close(errs)
		for e := range errs {
			res.Err += e + "; "
		}
	default:
		fmt.Fprintln(os.Stderr, "unknown op", op)
		os.Exit(2)
	}
	json.NewEncoder(os.Stdout).Encode(res)
}
