// Package ruggedrun drives the record encoding of ruggedPersistence (property C15):
// the pure functions through the verif hooks, and the same path through the public API
// (InitSession / publish / AdoptSession / connect). It records; TLC judges.
package ruggedrun

import (
	"bufio"
	"context"
	"encoding/binary"
	"encoding/json"
	"errors"
	"fmt"
	"io"
	"net"
	"strings"

	"github.com/pascaldekloe/mqtt"

	"verif/harness/simstore"
)

type Case struct {
	Op      string `json:"op"`
	P       []int  `json:"p"`
	Split   int    `json:"split"`
	S       []int  `json:"s"`
	Vals    []int  `json:"vals"` // replacement byte values; empty = all 255 others
	Msg     int    `json:"msg"`  // api: message size
	Level   int    `json:"level"`
	PosStep int    `json:"posstep"` // api: damage every posstep-th position (1 = all)
}

type Out struct {
	Ev                  string  `json:"ev"`
	Case                int     `json:"case"`
	P                   []int   `json:"p"`
	S                   []int   `json:"s"`
	Enc                 []int   `json:"enc"`
	DecOK               bool    `json:"dec_ok"`
	DecP                []int   `json:"dec_p"`
	DecS                []int   `json:"dec_s"`
	Len                 int     `json:"len"`
	Tried               int     `json:"tried"`
	Undetected          [][]int `json:"undetected"`
	LongTruncUndetected int     `json:"long_trunc_undetected"`
	Key                 uint    `json:"key"`
	Val                 []int   `json:"val"`
	Fatal               int     `json:"fatal"`
	NotWarned           [][]int `json:"not_warned"`
	NotDeleted          [][]int `json:"not_deleted"`
	Counted             [][]int `json:"counted"`
	Dialed              [][]int `json:"dialed"`
	Panics              int     `json:"panics"`
}

func (o *Out) norm() *Out {
	e := [][]int{}
	if o.Undetected == nil {
		o.Undetected = e
	}
	if o.NotWarned == nil {
		o.NotWarned = e
	}
	if o.NotDeleted == nil {
		o.NotDeleted = e
	}
	if o.Counted == nil {
		o.Counted = e
	}
	if o.Dialed == nil {
		o.Dialed = e
	}
	for _, f := range []*[]int{&o.P, &o.S, &o.Enc, &o.DecP, &o.DecS, &o.Val} {
		if *f == nil {
			*f = []int{}
		}
	}
	return o
}

func ints(b []byte) []int {
	r := make([]int, len(b))
	for i, x := range b {
		r[i] = int(x)
	}
	return r
}

func bytesOf(v []int) []byte {
	r := make([]byte, len(v))
	for i, x := range v {
		r[i] = byte(x)
	}
	return r
}

func seqOf(s []int) uint64 {
	var b [8]byte
	copy(b[:], bytesOf(s))
	return binary.LittleEndian.Uint64(b[:])
}

func flatten(b net.Buffers) []byte {
	var r []byte
	for _, p := range b {
		r = append(r, p...)
	}
	return r
}

func Run(r io.Reader, w io.Writer) error {
	bw := bufio.NewWriterSize(w, 1<<20)
	defer bw.Flush()
	enc := json.NewEncoder(bw)
	dec := json.NewDecoder(bufio.NewReaderSize(r, 1<<20))
	for n := 1; ; n++ {
		var c Case
		if err := dec.Decode(&c); err == io.EOF {
			return nil
		} else if err != nil {
			return err
		}
		var err error
		switch c.Op {
		case "enc":
			err = runEnc(n, &c, enc)
		case "dmg":
			err = runDmg(n, &c, enc)
		case "api":
			err = runAPI(n, &c, enc)
		default:
			err = fmt.Errorf("unknown op %q", c.Op)
		}
		if err != nil {
			return fmt.Errorf("case %d: %w", n, err)
		}
	}
}

func encode(c *Case) []byte {
	p := bytesOf(c.P)
	var bufs net.Buffers
	if c.Split > 0 && c.Split < len(p) {
		bufs = net.Buffers{append([]byte(nil), p[:c.Split]...), append([]byte(nil), p[c.Split:]...)}
	} else {
		bufs = net.Buffers{append([]byte(nil), p...)}
	}
	return flatten(mqtt.VerifEncodeValue(bufs, seqOf(c.S)))
}

func runEnc(n int, c *Case, enc *json.Encoder) error {
	v := encode(c)
	o := Out{Ev: "enc", Case: n, P: c.P, S: c.S, Enc: ints(v), Undetected: [][]int{}}
	p, s, err := mqtt.VerifDecodeValue(append([]byte(nil), v...))
	o.DecOK = err == nil
	if err == nil {
		var b [8]byte
		binary.LittleEndian.PutUint64(b[:], s)
		o.DecP, o.DecS = ints(p), ints(b[:])
		if o.DecP == nil {
			o.DecP = []int{}
		}
	}
	if o.P == nil {
		o.P = []int{}
	}
	return enc.Encode(o.norm())
}

func runDmg(n int, c *Case, enc *json.Encoder) error {
	v := encode(c)
	o := Out{Ev: "dmg", Case: n, Len: len(v), Undetected: [][]int{}}
	buf := make([]byte, len(v))
	for pos := range v {
		vals := c.Vals
		if len(vals) == 0 {
			vals = make([]int, 0, 255)
			for x := 0; x < 256; x++ {
				vals = append(vals, x)
			}
		}
		for _, x := range vals {
			if byte(x) == v[pos] {
				continue
			}
			copy(buf, v)
			buf[pos] = byte(x)
			o.Tried++
			if _, _, err := mqtt.VerifDecodeValue(buf); err == nil {
				o.Undetected = append(o.Undetected, []int{pos + 1, x})
			}
		}
	}
	if err := enc.Encode(o.norm()); err != nil {
		return err
	}
	t := Out{Ev: "trunc", Case: n, Len: len(v), Undetected: [][]int{}}
	for l := 0; l < len(v); l++ {
		t.Tried++
		if _, _, err := mqtt.VerifDecodeValue(append([]byte(nil), v[:l]...)); err == nil {
			if l < 12 {
				t.Undetected = append(t.Undetected, []int{l})
			} else {
				t.LongTruncUndetected++
			}
		}
	}
	return enc.Encode(t.norm())
}

var errNoDial = errors.New("verif: no dial")

// runAPI captures the records a real client saves and feeds damaged copies to
// AdoptSession and to a connecting client.
func runAPI(n int, c *Case, enc *json.Encoder) error {
	store := simstore.New()
	cfg := &mqtt.Config{Dialer: func(context.Context) (net.Conn, error) { return nil, errNoDial },
		AtLeastOnceMax: 4, ExactlyOnceMax: 4}
	client, err := mqtt.InitSession("verif-client", store, cfg)
	if err != nil {
		return err
	}
	msg := make([]byte, c.Msg)
	for i := range msg {
		msg[i] = byte(i*7 + n)
	}
	switch c.Level {
	case 1:
		_, err = client.PublishAtLeastOnce(msg, "t/1")
	case 2:
		_, err = client.PublishExactlyOnce(msg, "t/2")
	}
	if err != nil {
		return err
	}
	for _, key := range store.Keys() {
		val, _ := store.Get(key)
		if err := enc.Encode((&Out{Ev: "stored", Case: n, Key: key, Val: ints(val)}).norm()); err != nil {
			return err
		}
		o := Out{Ev: "adopt", Case: n, Key: key, Len: len(val), Undetected: [][]int{},
			NotWarned: [][]int{}, NotDeleted: [][]int{}, Counted: [][]int{}, Dialed: [][]int{}}
		step := c.PosStep
		if step < 1 {
			step = 1
		}
		vals := c.Vals
		for pos := 0; pos < len(val); pos++ {
			if pos >= 16 && pos < len(val)-16 && pos%step != 0 {
				continue
			}
			if len(c.Vals) == 0 {
				vals = vals[:0]
				for x := 0; x < 256; x++ {
					vals = append(vals, x)
				}
			}
			for _, x := range vals {
				if byte(x) == val[pos] {
					continue
				}
				o.Tried++
				damaged := append([]byte(nil), val...)
				damaged[pos] = byte(x)
				probe(&o, store, key, damaged, []int{pos + 1, x})
			}
		}
		for l := 0; l < 12 && l < len(val); l++ {
			o.Tried++
			probe(&o, store, key, val[:l], []int{-l - 1, 0})
		}
		if err := enc.Encode(o.norm()); err != nil {
			return err
		}
	}
	return nil
}

func probe(o *Out, orig *simstore.Store, key uint, damaged []byte, id []int) {
	defer func() {
		if recover() != nil {
			o.Panics++
		}
	}()
	st := orig.Clone()
	st.Put(key, damaged)
	dialed := false
	cfg := &mqtt.Config{Dialer: func(context.Context) (net.Conn, error) { dialed = true; return nil, errNoDial },
		AtLeastOnceMax: 4, ExactlyOnceMax: 4}
	client, warn, fatal := mqtt.AdoptSession(st, cfg)
	if fatal != nil {
		o.Fatal++
		return
	}
	if key == 0 {
		// the client identifier is read when connecting
		_, _, err := client.ReadSlices()
		if dialed || err == nil {
			o.Dialed = append(o.Dialed, id)
		}
		client.Close()
		return
	}
	warned := false
	for _, w := range warn {
		s := w.Error()
		if strings.Contains(s, fmt.Sprintf("%#x", key)) && (strings.Contains(s, "corrupt") || strings.Contains(s, "truncated")) {
			warned = true
		}
	}
	if !warned {
		o.NotWarned = append(o.NotWarned, id)
	}
	if _, ok := st.Get(key); ok {
		o.NotDeleted = append(o.NotDeleted, id)
	}
	snap := client.VerifSnapshot()
	if snap.QueueLen[0]+snap.QueueLen[1] != 0 {
		o.Counted = append(o.Counted, id)
	}
	client.Close()
}
