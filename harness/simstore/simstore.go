// Package simstore is a recording, fault-injecting mqtt.Persistence owned by the harness.
package simstore

import (
	"errors"
	"net"
	"sort"
	"sync"
)

// Op is one logged Persistence operation.
type Op struct {
	Op  string `json:"op"`
	Key uint   `json:"key"`
	Val []byte `json:"-"`
	Err bool   `json:"err"`
}

// ErrInjected is returned by operations the harness lets fail.
var ErrInjected = errors.New("simstore: injected failure")

// Store is an in-memory Persistence. The zero value is not usable; use New.
type Store struct {
	mu    sync.Mutex
	m     map[uint][]byte
	Log   []Op
	epoch int // operations of older epochs are refused (goroutines of a stopped client)
	// Hook, when set, is consulted before every operation; a non-nil error is returned
	// to the caller and the operation does not happen. It may block (gate).
	Hook func(op string, key uint) error
	// OnOp, when set, is told about every completed operation (after the fact).
	OnOp func(op Op, found bool)
	// ListOrder, when set, permutes the result of List.
	ListOrder func(keys []uint)
	// Alias makes Load hand out the stored slice itself instead of a copy.
	Alias bool
}

func New() *Store { return &Store{m: make(map[uint][]byte)} }

// Clone copies the content (not the log or hooks).
func (s *Store) Clone() *Store {
	s.mu.Lock()
	defer s.mu.Unlock()
	c := New()
	for k, v := range s.m {
		c.m[k] = append([]byte(nil), v...)
	}
	return c
}

func (s *Store) hook(op string, key uint) error {
	if h := s.Hook; h != nil {
		return h(op, key)
	}
	return nil
}

func (s *Store) Load(key uint) ([]byte, error) {
	if err := s.hook("Load", key); err != nil {
		s.log(Op{Op: "Load", Key: key, Err: true})
		return nil, err
	}
	s.mu.Lock()
	v, ok := s.m[key]
	op := Op{Op: "Load", Key: key, Val: v}
	s.Log = append(s.Log, op)
	s.mu.Unlock()
	s.told(op, ok)
	if !ok {
		return nil, nil
	}
	if s.Alias {
		return v, nil
	}
	return append([]byte{}, v...), nil
}

func (s *Store) Save(key uint, value net.Buffers) error {
	if err := s.hook("Save", key); err != nil {
		s.log(Op{Op: "Save", Key: key, Err: true})
		return err
	}
	var b []byte
	for _, p := range value {
		b = append(b, p...)
	}
	if b == nil {
		b = []byte{}
	}
	s.mu.Lock()
	s.m[key] = b
	op := Op{Op: "Save", Key: key, Val: b}
	s.Log = append(s.Log, op)
	s.mu.Unlock()
	s.told(op, true)
	return nil
}

func (s *Store) Delete(key uint) error {
	if err := s.hook("Delete", key); err != nil {
		s.log(Op{Op: "Delete", Key: key, Err: true})
		return err
	}
	s.mu.Lock()
	_, ok := s.m[key]
	delete(s.m, key)
	op := Op{Op: "Delete", Key: key}
	s.Log = append(s.Log, op)
	s.mu.Unlock()
	s.told(op, ok)
	return nil
}

func (s *Store) List() ([]uint, error) {
	if err := s.hook("List", 0); err != nil {
		s.log(Op{Op: "List", Err: true})
		return nil, err
	}
	s.mu.Lock()
	defer s.mu.Unlock()
	keys := make([]uint, 0, len(s.m))
	for k := range s.m {
		keys = append(keys, k)
	}
	sort.Slice(keys, func(i, j int) bool { return keys[i] < keys[j] })
	if s.ListOrder != nil {
		s.ListOrder(keys) // "List enumerates all available in any order"
	}
	s.Log = append(s.Log, Op{Op: "List"})
	return keys, nil
}

func (s *Store) log(op Op) {
	s.mu.Lock()
	s.Log = append(s.Log, op)
	s.mu.Unlock()
	s.told(op, false)
}

func (s *Store) told(op Op, found bool) {
	if f := s.OnOp; f != nil {
		f(op, found)
	}
}

// Raw access for the harness (not logged).
func (s *Store) Get(key uint) ([]byte, bool) {
	s.mu.Lock()
	defer s.mu.Unlock()
	v, ok := s.m[key]
	return append([]byte(nil), v...), ok
}

func (s *Store) Put(key uint, v []byte) {
	s.mu.Lock()
	s.m[key] = append([]byte{}, v...)
	s.mu.Unlock()
}

func (s *Store) Remove(key uint) {
	s.mu.Lock()
	delete(s.m, key)
	s.mu.Unlock()
}

func (s *Store) Keys() []uint {
	s.mu.Lock()
	defer s.mu.Unlock()
	keys := make([]uint, 0, len(s.m))
	for k := range s.m {
		keys = append(keys, k)
	}
	sort.Slice(keys, func(i, j int) bool { return keys[i] < keys[j] })
	return keys
}
