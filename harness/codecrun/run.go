// Package codecrun executes the request classes of spec/Codec.tla against the real client
// (property C09) and records the packets it emits in decoded form. TLC judges.
package codecrun

import (
	"bufio"
	"bytes"
	"encoding/json"
	"errors"
	"fmt"
	"io"
	"strings"
	"sync"
	"time"

	"github.com/pascaldekloe/mqtt"

	"verif/harness/codec"
	"verif/harness/sim"
	"verif/harness/simstore"
)

type Str struct {
	Cls string `json:"cls"`
	Len int    `json:"len"`
}

type Cfg struct {
	Cid  Str `json:"cid"`
	User Str `json:"user"`
	Pass struct {
		Set bool `json:"set"`
		Len int  `json:"len"`
	} `json:"pass"`
	Will      string `json:"will"`
	WTopic    Str    `json:"wtopic"`
	WMsg      int    `json:"wmsg"`
	WRetain   bool   `json:"wretain"`
	KeepAlive int    `json:"keepalive"`
	Clean     bool   `json:"clean"`
}

type Req struct {
	Op      string `json:"op"`
	Topic   Str    `json:"topic"`
	Payload int    `json:"payload"`
	Filters []Str  `json:"filters"`
	Cfg     Cfg    `json:"cfg"`
}

// Pk mirrors Codec!NoPacket.
type Pk struct {
	T         string `json:"t"`
	QoS       int    `json:"qos"`
	Retain    bool   `json:"retain"`
	Dup       bool   `json:"dup"`
	IDSpace   int    `json:"idspace"`
	TopicLen  int    `json:"topiclen"`
	Len       int    `json:"len"`
	RLB       int    `json:"rlb"`
	Size      int    `json:"size"`
	FiltLens  []int  `json:"filtlens"`
	Codes     []int  `json:"codes"`
	CFlags    int    `json:"cflags"`
	KeepAlive int    `json:"keepalive"`
	CidLen    int    `json:"cidlen"`
	WTopicLen int    `json:"wtopiclen"`
	WMsgLen   int    `json:"wmsglen"`
	UserLen   int    `json:"userlen"`
	PassLen   int    `json:"passlen"`
}

type Out struct {
	Case       int             `json:"case"`
	Req        json.RawMessage `json:"req"`
	Err        string          `json:"err"` // nil, deny, max, ctor, other
	IsEnd      bool            `json:"isend"`
	NPk        int             `json:"npk"`
	Pk         Pk              `json:"pk"`
	WellFormed bool            `json:"wellformed"`
	Reenc      bool            `json:"reenc"`
	ContentEq  bool            `json:"content_eq"`
	Saves      int             `json:"saves"`
	Probe      string          `json:"probe"` // ok, fail, na
	SlotsDelta int             `json:"slots_delta"`
	NDelta     int             `json:"n_delta"`
	Note       string          `json:"note"`
}

var seqs = map[string]string{
	"ascii": "a", "utf8_2": "é", "utf8_3": "€", "utf8_4": "\U0001F600", "maxcp": "\U0010FFFF",
	"nonchar": "￾", "ctrl": "\x01", "nul": "\x00", "surrogate": "\xed\xa0\x80", "overlong": "\xc0\xaf",
	"truncated": "\xe2\x82", "toobig": "\xf4\x90\x80\x80", "lonecont": "\x80",
}

var padCache = map[int]string{}
var cacheMu sync.Mutex

// mk instantiates a string class with the given byte length.
func mk(s Str, salt int) string {
	if s.Len == 0 {
		return ""
	}
	seq := seqs[s.Cls]
	if len(seq) > s.Len {
		seq = seq[:s.Len] // cannot happen for the classes the specification exports
	}
	n := s.Len - len(seq)
	cacheMu.Lock()
	defer cacheMu.Unlock()
	pad, ok := padCache[n]
	if !ok {
		pad = strings.Repeat("b", n)
		if len(padCache) < 64 {
			padCache[n] = pad
		}
	}
	if n > 0 {
		pad = string(rune('c'+salt%20)) + pad[1:]
	}
	if s.Cls == "truncated" {
		return pad + seq
	}
	return seq + pad
}

var payloads = map[int][]byte{}

func payload(n int) []byte {
	cacheMu.Lock()
	defer cacheMu.Unlock()
	if p, ok := payloads[n]; ok {
		return p
	}
	p := make([]byte, n)
	for i := 0; i < n; i += 997 {
		p[i] = byte(i)
	}
	if n > 3 {
		copy(p, "#7#")
	}
	payloads[n] = p
	return p
}

func classify(err error) string {
	switch {
	case err == nil:
		return "nil"
	case mqtt.IsDeny(err):
		return "deny"
	case errors.Is(err, mqtt.ErrMax):
		return "max"
	}
	return "other"
}

func Run(r io.Reader, w io.Writer) error {
	bw := bufio.NewWriterSize(w, 1<<20)
	defer bw.Flush()
	enc := json.NewEncoder(bw)
	dec := json.NewDecoder(bufio.NewReaderSize(r, 1<<20))
	for n := 1; ; n++ {
		var raw json.RawMessage
		if err := dec.Decode(&raw); err == io.EOF {
			return nil
		} else if err != nil {
			return err
		}
		var req Req
		if err := json.Unmarshal(raw, &req); err != nil {
			return err
		}
		o, err := guarded(n, &req)
		if err != nil {
			return fmt.Errorf("case %d (%s): %w", n, raw, err)
		}
		o.Case, o.Req = n, raw
		if o.Pk.FiltLens == nil {
			o.Pk.FiltLens = []int{}
		}
		if o.Pk.Codes == nil {
			o.Pk.Codes = []int{}
		}
		if o.Pk.T == "" {
			o.Pk.T = "none"
		}
		if err := enc.Encode(o); err != nil {
			return err
		}
	}
}

var hangs int

// guarded bounds the time of one case: a call that never returns is an observation ("hang").
func guarded(n int, req *Req) (*Out, error) {
	type res struct {
		o   *Out
		err error
	}
	ch := make(chan res, 1)
	go func() {
		o, err := runCase(n, req)
		ch <- res{o, err}
	}()
	if hangs >= 3 {
		return &Out{Err: "skipped", Probe: "na", Note: "skipped after repeated hangs"}, nil
	}
	limit := 4 * time.Second
	if req.Payload > 100<<20 {
		limit = 120 * time.Second
	}
	select {
	case r := <-ch:
		return r.o, r.err
	case <-time.After(limit):
		hangs++
		return &Out{Err: "hang", Probe: "na", Note: "the call did not return"}, nil
	}
}

type session struct {
	w      *sim.World
	store  *simstore.Store
	client *mqtt.Client
	done   chan struct{}
}

func start(clientID string, cfg *mqtt.Config) (*session, error) {
	s := &session{w: sim.NewWorld(), store: simstore.New(), done: make(chan struct{})}
	s.w.S.Free()
	cfg.Dialer = s.w.Dialer
	cfg.PauseTimeout = time.Hour
	c, err := mqtt.InitSession(clientID, s.store, cfg)
	if err != nil {
		return nil, err
	}
	s.client = c
	go func() {
		defer close(s.done)
		for {
			_, _, err := c.ReadSlices()
			if errors.Is(err, mqtt.ErrClosed) {
				return
			}
			if err != nil {
				var big *mqtt.BigMessage
				if errors.As(err, &big) {
					continue
				}
				select {
				case <-c.ReadBackoff(err):
				case <-time.After(5 * time.Millisecond):
				}
			}
		}
	}()
	return s, nil
}

func (s *session) stop() {
	s.client.Close()
	select {
	case <-s.done:
	case <-time.After(5 * time.Second):
	}
}

func (s *session) online() error {
	select {
	case <-s.client.Online():
		return nil
	case <-time.After(5 * time.Second):
		return errors.New("client did not come online in the harness")
	}
}

// wire returns the packets the client wrote on all connections, CONNECT excluded unless asked.
func (s *session) wire(withConnect bool) (pk []*codec.Packet, raws [][]byte) {
	for _, c := range s.w.Conns() {
		ps, _ := c.Wire()
		for i, p := range ps {
			if p.T == "CONNECT" && !withConnect {
				continue
			}
			pk = append(pk, p)
			raws = append(raws, c.RawAt(i))
		}
	}
	return
}

func (s *session) saves() int {
	n := 0
	for _, op := range s.store.Log {
		if op.Op == "Save" && op.Key != 0 {
			n++
		}
	}
	return n
}

func fill(pk *Pk, p *codec.Packet) {
	pk.T, pk.QoS, pk.Retain, pk.Dup = p.T, p.QoS, p.Retain, p.Dup
	pk.RLB, pk.Size = p.RLB, p.Size
	switch p.T {
	case "PUBLISH":
		pk.TopicLen, pk.Len = len(p.Topic), p.Len
		if p.QoS > 0 {
			pk.IDSpace = p.ID & 0xc000
		}
	case "SUBSCRIBE", "UNSUBSCRIBE":
		pk.IDSpace = p.ID & 0xe000
		for _, f := range p.Filt {
			pk.FiltLens = append(pk.FiltLens, len(f))
		}
		pk.Codes = append(pk.Codes, p.Codes...)
	case "CONNECT":
		c := p.Conn
		pk.CFlags, pk.KeepAlive, pk.CidLen = c.Flags, c.KeepAlive, len(c.ClientID)
		pk.WTopicLen, pk.WMsgLen, pk.UserLen, pk.PassLen = len(c.WillTopic), len(c.WillMsg), len(c.User), len(c.Pass)
	}
}

func waitFor(cond func() bool) bool {
	deadline := time.Now().Add(5 * time.Second)
	for !cond() {
		if time.Now().After(deadline) {
			return false
		}
		time.Sleep(200 * time.Microsecond)
	}
	return true
}

func runCase(n int, req *Req) (*Out, error) {
	o := &Out{Probe: "na"}
	if req.Op == "Connect" {
		return runConnect(n, req, o)
	}
	s, err := start("c", &mqtt.Config{AtLeastOnceMax: 1, ExactlyOnceMax: 1})
	if err != nil {
		return nil, err
	}
	defer s.stop()
	if err := s.online(); err != nil {
		return nil, err
	}
	before := s.client.VerifSnapshot()
	c1 := s.w.Conn(1)
	var callErr error
	wantType := ""
	var wantTopic string
	var wantPayload []byte
	var wantFilters []string
	switch {
	case strings.HasPrefix(req.Op, "Publish"):
		wantTopic, wantPayload, wantType = mk(req.Topic, n), payload(req.Payload), "PUBLISH"
		switch req.Op {
		case "Publish":
			callErr = s.client.Publish(nil, wantPayload, wantTopic)
		case "PublishRetained":
			callErr = s.client.PublishRetained(nil, wantPayload, wantTopic)
		case "PublishAtLeastOnce":
			_, callErr = s.client.PublishAtLeastOnce(wantPayload, wantTopic)
		case "PublishAtLeastOnceRetained":
			_, callErr = s.client.PublishAtLeastOnceRetained(wantPayload, wantTopic)
		case "PublishExactlyOnce":
			_, callErr = s.client.PublishExactlyOnce(wantPayload, wantTopic)
		case "PublishExactlyOnceRetained":
			_, callErr = s.client.PublishExactlyOnceRetained(wantPayload, wantTopic)
		}
	case strings.HasPrefix(req.Op, "Subscribe"), req.Op == "Unsubscribe":
		for i, f := range req.Filters {
			if i > 8 && f == req.Filters[i-1] {
				// long lists repeat one class: share the bytes (4096 filters of 65535 bytes would take 256 MiB)
				wantFilters = append(wantFilters, wantFilters[i-1])
				continue
			}
			wantFilters = append(wantFilters, mk(f, i))
		}
		wantType = "SUBSCRIBE"
		switch req.Op {
		case "Subscribe":
			callErr = s.client.Subscribe(nil, wantFilters...)
		case "SubscribeLimitAtMostOnce":
			callErr = s.client.SubscribeLimitAtMostOnce(nil, wantFilters...)
		case "SubscribeLimitAtLeastOnce":
			callErr = s.client.SubscribeLimitAtLeastOnce(nil, wantFilters...)
		case "Unsubscribe":
			wantType = "UNSUBSCRIBE"
			callErr = s.client.Unsubscribe(nil, wantFilters...)
		}
	case req.Op == "Ping":
		wantType = "PINGREQ"
		callErr = s.client.Ping(nil)
	case req.Op == "Disconnect":
		wantType = "DISCONNECT"
		callErr = s.client.Disconnect(nil)
	case req.Op == "AckQoS1":
		wantType = "PUBACK"
		s.w.Broker.Publish(c1, 1, "in/1", codec.Payload(5, 8), false)
	case req.Op == "AckQoS2", req.Op == "CompQoS2":
		wantType = "PUBREC"
		if req.Op == "CompQoS2" {
			wantType = "PUBCOMP"
		}
		s.w.Broker.Publish(c1, 2, "in/2", codec.Payload(6, 8), false)
	case req.Op == "RelQoS2":
		wantType = "PUBREL"
		_, callErr = s.client.PublishExactlyOnce(codec.Payload(7, 8), "out/2")
	default:
		return nil, fmt.Errorf("unknown op %q", req.Op)
	}
	o.Err, o.IsEnd = classify(callErr), mqtt.IsEnd(callErr)
	if callErr != nil && o.Err == "other" {
		o.Note = callErr.Error()
	}
	async := req.Op == "AckQoS1" || req.Op == "AckQoS2" || req.Op == "CompQoS2" || req.Op == "RelQoS2"
	if async {
		ok := waitFor(func() bool {
			ps, _ := s.wire(false)
			for _, p := range ps {
				if p.T == wantType {
					return true
				}
			}
			return false
		})
		if !ok {
			o.Note = "expected " + wantType + " never written"
		}
	}
	ps, raws := s.wire(false)
	var mine []*codec.Packet
	var mineRaw [][]byte
	for i, p := range ps {
		if p.T == wantType || (!async && p.T != "PUBREL" && p.T != "PUBACK" && p.T != "PUBREC" && p.T != "PUBCOMP") {
			mine = append(mine, p)
			mineRaw = append(mineRaw, raws[i])
		}
	}
	o.NPk = len(mine)
	if len(mine) > 0 {
		p := mine[0]
		fill(&o.Pk, p)
		o.WellFormed = p.Bad == ""
		if p.Bad != "" {
			o.Note = "malformed: " + p.Bad
		}
		o.Reenc = bytes.Equal(codec.Encode(p), mineRaw[0])
		switch p.T {
		case "PUBLISH":
			o.ContentEq = p.Topic == wantTopic && bytes.Equal(p.Payload, wantPayload)
		case "SUBSCRIBE", "UNSUBSCRIBE":
			o.ContentEq = len(p.Filt) == len(wantFilters)
			for i := range wantFilters {
				if i < len(p.Filt) && p.Filt[i] != wantFilters[i] {
					o.ContentEq = false
				}
			}
		default:
			o.ContentEq = true
		}
	}
	o.Saves = s.saves()
	if req.Op == "RelQoS2" {
		o.Saves = 0 // the scenario itself persists; not part of this class
	}
	if o.Err == "deny" {
		after := s.client.VerifSnapshot()
		o.SlotsDelta = after.UnorderedPending - before.UnorderedPending + after.QueueLen[0] + after.QueueLen[1] - before.QueueLen[0] - before.QueueLen[1]
		o.NDelta = int(after.UnorderedN) - int(before.UnorderedN) + after.AcceptN[0] + after.AcceptN[1] - before.AcceptN[0] - before.AcceptN[1]
		_, e1 := s.client.PublishAtLeastOnce([]byte("probe"), "probe/1")
		_, e2 := s.client.PublishExactlyOnce([]byte("probe"), "probe/2")
		if e1 == nil && e2 == nil {
			o.Probe = "ok"
		} else {
			o.Probe = "fail"
		}
	}
	return o, nil
}

func runConnect(n int, req *Req, o *Out) (*Out, error) {
	c := req.Cfg
	cfg := &mqtt.Config{UserName: mk(c.User, 1), KeepAlive: uint16(c.KeepAlive), CleanSession: c.Clean}
	if c.Pass.Set {
		cfg.Password = bytes.Repeat([]byte{'p'}, c.Pass.Len)
		if cfg.Password == nil {
			cfg.Password = []byte{}
		}
	}
	cfg.Will.Topic = mk(c.WTopic, 2)
	if c.Will != "none" {
		cfg.Will.Message = bytes.Repeat([]byte{'w'}, c.WMsg)
		if cfg.Will.Message == nil {
			cfg.Will.Message = []byte{}
		}
		cfg.Will.Retain = c.WRetain
		cfg.Will.AtLeastOnce = c.Will == "q1"
		cfg.Will.ExactlyOnce = c.Will == "q2"
	}
	cid := mk(c.Cid, 3)
	s, err := start(cid, cfg)
	if err != nil {
		o.Err = "ctor"
		o.Note = err.Error()
		return o, nil
	}
	defer s.stop()
	if err := s.online(); err != nil {
		o.Err, o.Note = "other", err.Error()
	} else {
		o.Err = "nil"
	}
	ps, raws := s.wire(true)
	o.NPk = len(ps)
	if len(ps) > 0 {
		p := ps[0]
		fill(&o.Pk, p)
		o.WellFormed = p.Bad == ""
		o.Reenc = bytes.Equal(codec.Encode(p), raws[0])
		if p.T == "CONNECT" {
			k := p.Conn
			o.ContentEq = k.ClientID == cid && k.User == cfg.UserName && k.Pass == string(cfg.Password) &&
				(!k.HasWill || (k.WillTopic == cfg.Will.Topic && k.WillMsg == string(cfg.Will.Message)))
		}
	}
	o.Saves = s.saves()
	return o, nil
}
