package sim

import (
	"strings"
	"sync"

	"verif/harness/codec"
)

// OutMsg is a message the broker delivers to the client.
type OutMsg struct {
	ID      int
	QoS     int
	Topic   string
	Payload []byte
	State   string // sent, rec (PUBREC seen, PUBREL sent), done
}

// Broker is a conforming MQTT 3.1.1 broker for one client session. It reacts to client
// packets as the OASIS specification says; the scenario decides when it consumes a packet
// and whether the reaction is sent.
type Broker struct {
	w           *World
	mu          sync.Mutex
	session     bool
	awaitingRel map[int]bool
	out         []*OutMsg
	nextID      int
	sizes       map[int]int // payload size -> tag of every message published to the client
	// Mute lists packet types whose answers are withheld.
	Mute map[string]bool
	// IDBase: the broker's own packet identifiers start above this value (any 16-bit identifier is the broker's to use,
	// also one that equals an identifier the client has in flight in the other direction)
	IDBase int
}

func NewBroker(w *World) *Broker {
	return &Broker{w: w, awaitingRel: map[int]bool{}, Mute: map[string]bool{}}
}

func (b *Broker) send(c *Conn, p *codec.Packet) {
	raw := codec.Encode(p)
	d, _ := codec.Decode(raw)
	b.w.Rec.Emit(Ev{"e": "bs", "c": c.id, "pk": Brief(d)})
	c.Inject(raw)
}

// Awaiting makes the broker remember an exactly-once publication of an earlier incarnation whose PUBREL is due.
func (b *Broker) Awaiting(id int) {
	b.mu.Lock()
	b.session = true
	b.awaitingRel[id] = true
	b.mu.Unlock()
}

// SendRaw queues arbitrary bytes (hostile broker).
func (b *Broker) SendRaw(c *Conn, raw []byte, note string) {
	b.w.Rec.Emit(Ev{"e": "bsraw", "c": c.id, "n": len(raw), "note": note, "violation": false})
	c.Inject(raw)
}

// Pump consumes every complete client packet on c and reacts (free mode).
func (b *Broker) Pump(c *Conn) {
	for b.Consume(c, true) {
	}
}

// Consume takes the next complete client packet of c, updates the session and, when
// respond is set, sends the reaction. It reports whether there was a packet.
func (b *Broker) Consume(c *Conn, respond bool) bool {
	// (taking the packet and answering it is one step: two pumps at once must not answer out of order)
	b.mu.Lock()
	defer b.mu.Unlock()
	p, _ := c.NextUnconsumed()
	if p == nil {
		return false
	}
	b.w.Rec.Emit(Ev{"e": "br", "c": c.id, "pk": Brief(p)})
	if p.Bad != "" {
		if respond {
			c.BrokerClose()
		}
		return true
	}
	var replies []*codec.Packet
	switch p.T {
	case "CONNECT":
		sp := 0
		if p.Conn.Clean {
			b.awaitingRel = map[int]bool{}
			b.out = nil
		} else if b.session {
			sp = 1
		}
		b.session = true
		// session take-over: older connections of this client are dropped (MQTT-3.1.4-2)
		for _, old := range b.w.Conns() {
			if old.id < c.id {
				old.dropUnconsumed()
			}
		}
		replies = append(replies, &codec.Packet{T: "CONNACK", SP: sp, RC: 0})
		if b.w.Frame != nil {
			// framing run: the whole stream follows CONNACK at once
			for _, fp := range b.w.Frame {
				if fp.T == "PUBLISH" && fp.QoS > 0 {
					b.out = append(b.out, &OutMsg{ID: fp.ID, QoS: fp.QoS, Topic: fp.Topic, Payload: fp.Payload, State: "sent"})
				}
				replies = append(replies, fp)
			}
			b.w.Frame = nil
		}
		for _, m := range b.out {
			if b.w.Idle != nil {
				break // no retransmissions in framing runs
			}
			switch m.State {
			case "sent":
				replies = append(replies, &codec.Packet{T: "PUBLISH", ID: m.ID, QoS: m.QoS, Dup: true, Topic: m.Topic, Payload: m.Payload})
			case "rec":
				replies = append(replies, &codec.Packet{T: "PUBREL", ID: m.ID})
			}
		}
	case "PUBLISH":
		switch p.QoS {
		case 0:
			b.deliver(p)
		case 1:
			b.deliver(p)
			replies = append(replies, &codec.Packet{T: "PUBACK", ID: p.ID})
		case 2:
			if !b.awaitingRel[p.ID] {
				b.awaitingRel[p.ID] = true
				b.deliver(p)
			}
			replies = append(replies, &codec.Packet{T: "PUBREC", ID: p.ID})
		}
	case "PUBREL":
		delete(b.awaitingRel, p.ID)
		replies = append(replies, &codec.Packet{T: "PUBCOMP", ID: p.ID})
	case "PUBACK":
		for _, m := range b.out {
			if m.ID == p.ID && m.QoS == 1 && m.State == "sent" {
				m.State = "done"
			}
		}
	case "PUBREC":
		for _, m := range b.out {
			if m.ID == p.ID && m.QoS == 2 && m.State != "done" {
				m.State = "rec"
			}
		}
		replies = append(replies, &codec.Packet{T: "PUBREL", ID: p.ID})
	case "PUBCOMP":
		for _, m := range b.out {
			if m.ID == p.ID && m.QoS == 2 && m.State == "rec" {
				m.State = "done"
			}
		}
	case "SUBSCRIBE":
		codes := make([]int, len(p.Filt))
		for i, f := range p.Filt {
			if strings.HasPrefix(f, "fail") {
				codes[i] = 0x80
			} else {
				codes[i] = p.Codes[i]
			}
		}
		if b.Mute["SUBACK-hold"] && len(p.Filt) > 0 && strings.HasPrefix(p.Filt[0], "hold/") {
			break // a slow broker: no answer to this one
		}
		if b.Mute["SUBACK-badcode"] && respond && len(p.Filt) > 0 && strings.HasPrefix(p.Filt[0], "fail") {
			// a broker that answers with a return code MQTT does not define: the client has to reset (violation)
			raw := codec.Encode(&codec.Packet{T: "SUBACK", ID: p.ID, Codes: append([]int{3}, codes[1:]...)})
			b.w.Rec.Emit(Ev{"e": "bsraw", "c": c.id, "n": len(raw), "note": "SUBACK with return code 3", "violation": c.Aligned()})
			c.Inject(raw)
			break
		}
		if b.Mute["SUBACK-miscount"] && respond {
			// a broker that answers with one return code too many (MQTT-3.8.4-5 violated): hostile input
			raw := codec.Encode(&codec.Packet{T: "SUBACK", ID: p.ID, Codes: append(codes, 0)})
			b.w.Rec.Emit(Ev{"e": "bsraw", "c": c.id, "n": len(raw), "note": "SUBACK with one return code too many", "violation": false}) // (tolerated when the request was abandoned meanwhile)
			c.Inject(raw)
			break
		}
		replies = append(replies, &codec.Packet{T: "SUBACK", ID: p.ID, Codes: codes})
	case "UNSUBSCRIBE":
		replies = append(replies, &codec.Packet{T: "UNSUBACK", ID: p.ID})
	case "PINGREQ":
		replies = append(replies, &codec.Packet{T: "PINGRESP"})
	case "DISCONNECT":
		if respond {
			c.BrokerClose()
		}
	}
	if respond {
		for _, r := range replies {
			if b.Mute[r.T] {
				continue
			}
			b.send(c, r)
		}
	}
	return true
}

func (b *Broker) deliver(p *codec.Packet) {
	b.w.Rec.Emit(Ev{"e": "deliver", "tag": p.Tag, "id": p.ID, "qos": p.QoS, "topic": p.Topic, "len": p.Len, "sum": p.Sum, "retain": p.Retain})
}

// Publish starts a delivery to the client on connection c.
func (b *Broker) Publish(c *Conn, qos int, topic string, payload []byte, retain bool) int {
	b.mu.Lock()
	defer b.mu.Unlock()
	id := 0
	if qos > 0 {
		// the lowest identifier that is not in flight: identifiers are reused after completion
		for id = b.IDBase + 1; ; id++ {
			busy := false
			for _, m := range b.out {
				if m.ID == id && m.State != "done" {
					busy = true
				}
			}
			if !busy {
				break
			}
		}
		b.out = append(b.out, &OutMsg{ID: id, QoS: qos, Topic: topic, Payload: payload, State: "sent"})
	}
	if b.sizes == nil {
		b.sizes = map[int]int{}
	}
	b.sizes[len(payload)] = codec.TagOf(payload)
	b.send(c, &codec.Packet{T: "PUBLISH", ID: id, QoS: qos, Topic: topic, Payload: payload, Retain: retain})
	return id
}

// SendPacket queues one packet as is (scenario-driven broker).
func (b *Broker) SendPacket(c *Conn, p *codec.Packet) {
	b.mu.Lock()
	defer b.mu.Unlock()
	if p.T == "PUBLISH" && p.QoS > 0 {
		known := false
		for _, m := range b.out {
			if m.ID == p.ID && m.State != "done" {
				known = true
			}
		}
		if !known {
			b.out = append(b.out, &OutMsg{ID: p.ID, QoS: p.QoS, Topic: p.Topic, Payload: p.Payload, State: "sent"})
		}
	}
	b.send(c, p)
}

// OutPending counts deliveries to the client that are not complete.
func (b *Broker) OutPending() int {
	b.mu.Lock()
	defer b.mu.Unlock()
	n := 0
	for _, m := range b.out {
		if m.State != "done" {
			n++
		}
	}
	return n
}

// TagBySize identifies a delivery to the client by its payload size (0 = unknown).
func (b *Broker) TagBySize(size int) int {
	b.mu.Lock()
	defer b.mu.Unlock()
	return b.sizes[size]
}
