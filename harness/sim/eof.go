package sim

import "io"

func eofError() error { return io.EOF }
