// Package sim is the simulated world of one client execution: recorder, network,
// scripted broker and gated store, all owned by the harness. It records; it decides nothing.
package sim

import (
	"encoding/json"
	"io"
	"sync"
)

// Ev is one recorded event.
type Ev map[string]any

// Rec collects the events of one execution in a total order.
type Rec struct {
	mu    sync.Mutex
	seq   int
	evs   []Ev
	muted bool
}

// Mute switches recording off and on (long preludes that only position the sequence counters).
func (r *Rec) Mute(on bool) {
	r.mu.Lock()
	r.muted = on
	r.mu.Unlock()
}

func (r *Rec) Emit(e Ev) {
	r.mu.Lock()
	if r.muted {
		r.mu.Unlock()
		return
	}
	r.seq++
	e["seq"] = r.seq
	r.evs = append(r.evs, e)
	r.mu.Unlock()
}

func (r *Rec) Events() []Ev {
	r.mu.Lock()
	defer r.mu.Unlock()
	return append([]Ev(nil), r.evs...)
}

func (r *Rec) Len() int {
	r.mu.Lock()
	defer r.mu.Unlock()
	return len(r.evs)
}

// Dump writes the events as ndjson.
func (r *Rec) Dump(w io.Writer) error {
	enc := json.NewEncoder(w)
	for _, e := range r.Events() {
		if err := enc.Encode(e); err != nil {
			return err
		}
	}
	return nil
}
