package sim

import (
	"bytes"
	"context"
	"errors"
	"net"
	"sync"
	"time"

	"verif/harness/codec"
	"verif/harness/sched"
)

// World ties recorder, scheduler, connections and broker of one execution together.
type World struct {
	Rec    *Rec
	S      *sched.S
	Broker *Broker
	mu     sync.Mutex
	conns  []*Conn
	// DialFail makes free-mode dials fail this many times.
	DialFail int
	// Frame, when set, is sent by the broker right after CONNACK on the first connection (framing runs).
	Frame []*codec.Packet
	// Idle is signalled when a reader finds nothing to read and no read plan left.
	Idle chan int
	// AutoBroker lets the broker react to every client write at once, also in gated mode.
	AutoBroker bool
	// StallAfter > 0: on the first connection the broker stops reading after that many Write calls went through:
	// further writes block (free mode) until the connection is closed or broken
	StallAfter int
	// CloseErr makes Conn.Close return an error (after closing).
	CloseErr bool
}

func NewWorld() *World {
	w := &World{Rec: &Rec{}, S: sched.New()}
	w.Broker = NewBroker(w)
	return w
}

func (w *World) Conn(id int) *Conn {
	w.mu.Lock()
	defer w.mu.Unlock()
	if id < 1 || id > len(w.conns) {
		return nil
	}
	return w.conns[id-1]
}

func (w *World) Conns() []*Conn {
	w.mu.Lock()
	defer w.mu.Unlock()
	return append([]*Conn(nil), w.conns...)
}

type timeoutErr struct{}

func (timeoutErr) Error() string   { return "simnet: i/o timeout" }
func (timeoutErr) Timeout() bool   { return true }
func (timeoutErr) Temporary() bool { return true }

// ErrHard is a non-timeout network failure.
var ErrHard = errors.New("simnet: connection reset by peer")

var errDial = errors.New("simnet: dial failed")

func closedErr(op string) error {
	return &net.OpError{Op: op, Net: "sim", Err: net.ErrClosed}
}

// Dialer is the mqtt.Dialer of the world.
func (w *World) Dialer(ctx context.Context) (net.Conn, error) {
	o := w.S.Arrive("dial", "dial", map[string]any{"cancelled": ctx.Err() != nil})
	me := w.S.Me()
	fail := false
	switch o.Kind {
	case "free":
		w.mu.Lock()
		if w.DialFail > 0 {
			w.DialFail--
			fail = true
		}
		w.mu.Unlock()
		if ctx.Err() != nil {
			w.Rec.Emit(Ev{"e": "dial", "p": me, "c": 0, "err": "cancelled"})
			return nil, ctx.Err()
		}
	case "err":
		fail = true
	case "cancelled":
		// the dialer honours its context
		<-ctx.Done()
		w.Rec.Emit(Ev{"e": "dial", "p": me, "c": 0, "err": "cancelled"})
		return nil, ctx.Err()
	}
	if fail {
		w.Rec.Emit(Ev{"e": "dial", "p": me, "c": 0, "err": "err"})
		return nil, errDial
	}
	w.mu.Lock()
	c := &Conn{id: len(w.conns) + 1, w: w}
	c.cond = sync.NewCond(&c.mu)
	w.conns = append(w.conns, c)
	w.mu.Unlock()
	w.Rec.Emit(Ev{"e": "dial", "p": me, "c": c.id, "err": ""})
	return c, nil
}

// Conn is a simulated connection. Client-to-broker bytes are parsed into packets as they
// are accepted; broker-to-client bytes wait in a queue until a Read takes them.
type Conn struct {
	id   int
	w    *World
	mu   sync.Mutex
	cond *sync.Cond

	c2b      codec.Stream // accepted bytes from the client
	consumed int          // client packets the broker has consumed
	b2c      []byte       // bytes the broker sent, not yet read
	b2cAll   codec.Stream // everything delivered to the client so far
	sent     codec.Stream // everything the broker sent so far (read or not)
	plan     []PlanStep   // scripted outcomes of the next Read calls (framing runs)
	eof      bool         // broker closed its side after the queue drains
	closed   bool
	closedBy string
	dead     bool // writes and reads fail hard (broken network)
	rdArmed  bool
	wrArmed  bool
	writers  int // concurrent Write calls (C08)
	overlap  bool
	nwrites  int    // completed Write calls
	rest     []byte // what the last Write call did not get accepted: a retry has to continue with exactly these bytes
}

func (c *Conn) ID() int { return c.id }

func (c *Conn) LocalAddr() net.Addr  { return simAddr{} }
func (c *Conn) RemoteAddr() net.Addr { return simAddr{} }

type simAddr struct{}

func (simAddr) Network() string { return "sim" }
func (simAddr) String() string  { return "sim" }

func (c *Conn) SetDeadline(t time.Time) error {
	c.SetReadDeadline(t)
	return c.SetWriteDeadline(t)
}
func (c *Conn) SetReadDeadline(t time.Time) error {
	c.mu.Lock()
	defer c.mu.Unlock()
	if c.closed {
		return closedErr("set")
	}
	c.rdArmed = !t.IsZero()
	return nil
}
func (c *Conn) SetWriteDeadline(t time.Time) error {
	c.mu.Lock()
	defer c.mu.Unlock()
	if c.closed {
		return closedErr("set")
	}
	c.wrArmed = !t.IsZero()
	return nil
}

func (c *Conn) Close() error {
	me := c.w.S.Me()
	c.mu.Lock()
	already := c.closed
	c.closed = true
	if !already {
		c.closedBy = me
	}
	c.cond.Broadcast()
	c.mu.Unlock()
	c.w.Rec.Emit(Ev{"e": "cclose", "c": c.id, "p": me, "again": already})
	if c.w.CloseErr {
		return errors.New("simnet: close failed")
	}
	return nil
}

func (c *Conn) IsClosed() bool {
	c.mu.Lock()
	defer c.mu.Unlock()
	return c.closed
}

// Brief is the compact form of a packet used in events.
func Brief(p *codec.Packet) map[string]any {
	m := map[string]any{"t": p.T, "id": p.ID, "qos": p.QoS, "dup": p.Dup, "retain": p.Retain, "tag": p.Tag, "len": p.Len, "sum": p.Sum,
		"topic": p.Topic, "filt": p.Filt, "codes": p.Codes, "sp": p.SP, "rc": p.RC, "bad": p.Bad, "clean": false}
	if p.Filt == nil {
		m["filt"] = []string{}
	}
	if p.Codes == nil {
		m["codes"] = []int{}
	}
	if len(p.Topic) > 64 {
		m["topic"] = p.Topic[:64]
	}
	if p.Conn != nil {
		m["clean"] = p.Conn.Clean
	}
	return m
}

func pkList(ps []*codec.Packet) []any {
	r := make([]any, 0, len(ps))
	for _, p := range ps {
		r = append(r, Brief(p))
	}
	return r
}

// Write implements net.Conn. Gate kind "write".
func (c *Conn) Write(b []byte) (int, error) {
	me := c.w.S.Me()
	c.mu.Lock()
	c.writers++
	if c.writers > 1 {
		c.overlap = true
	}
	armed := c.wrArmed
	c.mu.Unlock()
	defer func() {
		c.mu.Lock()
		c.writers--
		c.mu.Unlock()
	}()
	head := 0
	if len(b) > 0 {
		head = int(b[0])
	}
	o := c.w.S.Arrive("write", "conn.Write", map[string]any{"c": c.id, "n": len(b), "armed": armed, "head": head})
	c.mu.Lock()
	n, errs := 0, ""
	var err error
	switch {
	case c.closed:
		err, errs = closedErr("write"), "closed"
	case c.dead:
		err, errs = ErrHard, "hard"
	case o.Kind == "free" && c.id == 1 && c.w.StallAfter > 0 && c.nwrites >= c.w.StallAfter:
		// a broker that stopped reading: the write blocks until somebody closes the connection
		for !c.closed && !c.dead {
			c.cond.Wait()
		}
		if c.closed {
			err, errs = closedErr("write"), "closed"
		} else {
			err, errs = ErrHard, "hard"
		}
	case o.Kind == "free" || o.Kind == "ok" || o.Kind == "":
		n = len(b)
		c.nwrites++
	case o.Kind == "timeout":
		n = o.N
		if n > len(b) {
			n = len(b)
		}
		err, errs = timeoutErr{}, "timeout"
		if !armed {
			errs = "timeout-unarmed" // harness/model error: no deadline was armed
		}
	case o.Kind == "err":
		n = o.N
		if n > len(b) {
			n = len(b)
		}
		err, errs = ErrHard, "hard"
		c.dead = true // a reset connection stays broken
	default:
		// the stimulus names an outcome that does not apply here (model and code disagree about the
		// connection): a plain network error is always a possible environment behaviour
		err, errs = ErrHard, "hard"
		c.w.Rec.Emit(Ev{"e": "diverge", "step": 0, "why": "write outcome " + o.Kind + " does not apply"})
	}
	// after an incomplete Write the library may go on with the rest of those bytes, and with nothing else (C08)
	cont := len(c.rest) == 0 || bytes.Equal(b, c.rest)
	if n < len(b) {
		c.rest = append([]byte(nil), b[n:]...)
	} else {
		c.rest = nil
	}
	got := c.c2b.Feed(b[:n])
	tail := c.c2b.Tail()
	overlap := c.overlap
	ptail := partial(c.c2b.TailBytes())
	c.mu.Unlock()
	c.w.Rec.Emit(Ev{"e": "cw", "c": c.id, "p": me, "n": n, "of": len(b), "err": errs, "pk": pkList(got), "tail": tail,
		"ptype": ptail[0], "pid": ptail[1], "overlap": overlap, "cont": cont})
	if (o.Kind == "free" || c.w.AutoBroker) && err == nil {
		c.w.Broker.Pump(c)
	}
	return n, err
}

// Read implements net.Conn. Gate kind "read".
func (c *Conn) Read(b []byte) (int, error) {
	me := c.w.S.Me()
	c.mu.Lock()
	armed := c.rdArmed
	avail := len(c.b2c)
	mid := c.b2cAll.Tail() != 0 && c.b2cAll.Err == ""
	c.mu.Unlock()
	o := c.w.S.Arrive("read", "conn.Read", map[string]any{"c": c.id, "max": len(b), "armed": armed, "avail": avail, "mid": mid})
	c.mu.Lock()
	if o.Kind == "free" {
		// free mode: block until bytes, end of stream or close
		// scripted fragmentation
		for len(c.plan) > 0 && len(c.b2c) > 0 && !c.closed && !c.dead {
			st := &c.plan[0]
			if st.Stall {
				c.plan = c.plan[1:]
				if !c.rdArmed {
					continue // no deadline is armed here: the pause is not an expiry
				}
				c.mu.Unlock()
				c.w.Rec.Emit(Ev{"e": "cr", "c": c.id, "p": me, "n": 0, "err": "timeout", "pk": []any{}, "tail": 0, "armed": true, "ferr": ""})
				return 0, timeoutErr{}
			}
			k := st.N
			if k > len(b) {
				k = len(b)
			}
			if k > len(c.b2c) {
				k = len(c.b2c)
			}
			st.N -= k
			if st.N <= 0 {
				c.plan = c.plan[1:]
			}
			n := copy(b, c.b2c[:k])
			c.b2c = c.b2c[n:]
			got := c.b2cAll.Feed(b[:n])
			tail := c.b2cAll.Tail()
			c.mu.Unlock()
			c.w.Rec.Emit(Ev{"e": "cr", "c": c.id, "p": me, "n": n, "err": "", "pk": pkList(got), "tail": tail, "armed": armed, "ferr": ""})
			return n, nil
		}
		if len(c.b2c) == 0 && !c.closed && !c.eof && !c.dead && !c.rdArmed && c.w.Idle != nil {
			select {
			case c.w.Idle <- c.id:
			default:
			}
		}
		waited := false
		for len(c.b2c) == 0 && !c.closed && !c.eof && !c.dead {
			if c.rdArmed {
				// the client armed a deadline: in the free world it expires after a while (PauseTimeout)
				if waited {
					c.mu.Unlock()
					c.w.Rec.Emit(Ev{"e": "cr", "c": c.id, "p": me, "n": 0, "err": "timeout", "pk": []any{}, "tail": 0, "armed": true, "ferr": ""})
					return 0, timeoutErr{}
				}
				waited = true
				c.mu.Unlock()
				time.Sleep(25 * time.Millisecond)
				c.mu.Lock()
				continue
			}
			if c.b2cAll.Tail() != 0 && c.b2cAll.Err == "" {
				c.w.Rec.Emit(Ev{"e": "nodeadline", "c": c.id, "p": me})
			}
			c.cond.Wait()
		}
	}
	n, errs := 0, ""
	var err error
	switch {
	case c.closed:
		err, errs = closedErr("read"), "closed"
	case c.dead:
		err, errs = ErrHard, "hard"
	case o.Kind == "timeout":
		err, errs = timeoutErr{}, "timeout"
		if !armed {
			errs = "timeout-unarmed"
		}
	case o.Kind == "err":
		err, errs = ErrHard, "hard"
		c.dead = true // a reset connection stays broken
	case o.Kind == "eof":
		err, errs = errEOF, "eof"
	default: // free, ok, n
		k := len(c.b2c)
		if o.Kind == "n" && o.N < k {
			k = o.N
		}
		if k > len(b) {
			k = len(b)
		}
		if k == 0 && c.eof {
			err, errs = errEOF, "eof"
		} else if k == 0 {
			err, errs = ErrHard, "hard"
			c.w.Rec.Emit(Ev{"e": "diverge", "step": 0, "why": "read outcome " + o.Kind + " with nothing to read"})
		}
		n = copy(b, c.b2c[:k])
		c.b2c = c.b2c[n:]
	}
	got := c.b2cAll.Feed(b[:n])
	tail := c.b2cAll.Tail()
	ferr := c.b2cAll.Err
	c.mu.Unlock()
	c.w.Rec.Emit(Ev{"e": "cr", "c": c.id, "p": me, "n": n, "err": errs, "pk": pkList(got), "tail": tail, "armed": armed, "ferr": ferr})
	return n, err
}

var errEOF = errors.New("EOF")

func init() {
	// io.EOF without importing io at the top for one use
	errEOF = eofError()
}

// PlanStep is one scripted Read outcome: deliver N bytes, or a deadline expiry.
type PlanStep struct {
	N     int
	Stall bool
}

// SetPlan scripts the next Read calls.
func (c *Conn) SetPlan(p []PlanStep) {
	c.mu.Lock()
	c.plan = p
	c.mu.Unlock()
}

// Inject queues broker-to-client bytes.
func (c *Conn) Inject(b []byte) {
	c.mu.Lock()
	c.sent.Feed(b)
	c.b2c = append(c.b2c, b...)
	c.cond.Broadcast()
	c.mu.Unlock()
}

// BrokerClose ends the broker-to-client stream (EOF after the queue drains).
func (c *Conn) BrokerClose() {
	c.mu.Lock()
	c.eof = true
	c.cond.Broadcast()
	c.mu.Unlock()
	c.w.Rec.Emit(Ev{"e": "bclose", "c": c.id})
}

// Break makes the connection fail hard in both directions.
func (c *Conn) Break() {
	c.mu.Lock()
	c.dead = true
	c.cond.Broadcast()
	c.mu.Unlock()
	c.w.Rec.Emit(Ev{"e": "break", "c": c.id})
}

// NextUnconsumed returns the next complete client packet the broker has not consumed yet.
func (c *Conn) NextUnconsumed() (*codec.Packet, []byte) {
	c.mu.Lock()
	defer c.mu.Unlock()
	if c.consumed < len(c.c2b.Pkts) {
		p, raw := c.c2b.Pkts[c.consumed], c.c2b.Raw[c.consumed]
		c.consumed++
		return p, raw
	}
	return nil, nil
}

// Pending reports unread broker-to-client bytes.
func (c *Conn) Pending() int {
	c.mu.Lock()
	defer c.mu.Unlock()
	return len(c.b2c)
}

// Wire returns the client-to-broker packets and the incomplete tail size.
func (c *Conn) Wire() ([]*codec.Packet, int) {
	c.mu.Lock()
	defer c.mu.Unlock()
	return append([]*codec.Packet(nil), c.c2b.Pkts...), c.c2b.Tail()
}

// RawAt returns the bytes of the i-th complete client packet.
func (c *Conn) RawAt(i int) []byte {
	c.mu.Lock()
	defer c.mu.Unlock()
	return c.c2b.Raw[i]
}

// Readable tells why a Read would return although no bytes wait: "closed", "eof", "err", or "".
func (c *Conn) Readable() string {
	c.mu.Lock()
	defer c.mu.Unlock()
	switch {
	case c.closed:
		return "closed"
	case c.dead:
		return "err"
	case c.eof:
		return "eof"
	}
	return ""
}

// partial identifies an incomplete packet at the end of the stream as far as its bytes allow:
// type name and packet identifier (0 = unknown).
func partial(b []byte) [2]any {
	if len(b) == 0 {
		return [2]any{"", 0}
	}
	t := [16]string{"RESERVED0", "CONNECT", "CONNACK", "PUBLISH", "PUBACK", "PUBREC", "PUBREL", "PUBCOMP",
		"SUBSCRIBE", "SUBACK", "UNSUBSCRIBE", "UNSUBACK", "PINGREQ", "PINGRESP", "DISCONNECT", "RESERVED15"}[b[0]>>4]
	hdr, _, err := codec.Frame(append(append([]byte(nil), b...), make([]byte, 5)...))
	if err != nil || len(b) < hdr+2 {
		return [2]any{t, 0}
	}
	body := b[hdr:]
	switch t {
	case "PUBLISH":
		if b[0]&6 == 0 {
			return [2]any{t, 0}
		}
		n := int(body[0])<<8 | int(body[1])
		if len(body) >= 2+n+2 {
			return [2]any{t, int(body[2+n])<<8 | int(body[2+n+1])}
		}
		return [2]any{t, 0}
	case "CONNECT", "PINGREQ", "DISCONNECT":
		return [2]any{t, 0}
	}
	return [2]any{t, int(body[0])<<8 | int(body[1])}
}

// Established reports whether the broker consumed a CONNECT on this connection.
func (c *Conn) Established() bool {
	c.mu.Lock()
	defer c.mu.Unlock()
	return c.consumed > 0 && !c.dead && !c.eof // (a reset connection carries nothing any more)
}

// dropUnconsumed ends the broker's side of an old connection: what the client wrote there is
// not processed any more and the client reads end-of-stream.
func (c *Conn) dropUnconsumed() {
	c.mu.Lock()
	c.consumed = len(c.c2b.Pkts)
	already := c.eof
	c.eof = true
	c.cond.Broadcast()
	c.mu.Unlock()
	if !already {
		c.w.Rec.Emit(Ev{"e": "bclose", "c": c.id})
	}
}

// Aligned reports whether everything the broker sent so far forms whole packets.
func (c *Conn) Aligned() bool {
	c.mu.Lock()
	defer c.mu.Unlock()
	return c.sent.Tail() == 0 && c.sent.Err == ""
}
