package runner

import (
	"bufio"
	"encoding/json"
	"io"

	"verif/harness/sim"
)

// RunAll executes behaviours (ndjson) and writes one concatenated trace: a "reset" line
// followed by the events of each behaviour.
func RunAll(r io.Reader, w io.Writer) error {
	bw := bufio.NewWriterSize(w, 1<<20)
	defer bw.Flush()
	enc := json.NewEncoder(bw)
	dec := json.NewDecoder(bufio.NewReaderSize(r, 1<<20))
	for n := 1; ; n++ {
		var b Behaviour
		if err := dec.Decode(&b); err == io.EOF {
			return nil
		} else if err != nil {
			return err
		}
		var evs []sim.Ev
		if b.Frame != nil {
			evs = RunFrame(b.ID, b.Frame)
		} else {
			evs = Run(&b)
		}
		if err := enc.Encode(sim.Ev{"e": "reset", "case": n, "id": b.ID}); err != nil {
			return err
		}
		for _, e := range evs {
			e["case"] = n
			if err := enc.Encode(e); err != nil {
				return err
			}
		}
	}
}
