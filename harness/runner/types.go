package runner

import (
	"context"
	"net"
)

type contextT = context.Context
type netConn = net.Conn
