package runner

import (
	"errors"
	"time"

	"github.com/pascaldekloe/mqtt"

	"verif/harness/codec"
	"verif/harness/sim"
	"verif/harness/simstore"
)

// FramePkt is a packet of a framing stream (spec/Framing.tla).
type FramePkt struct {
	K   string `json:"k"`
	QoS int    `json:"qos"`
	N   int    `json:"n"`
}

// Frame is one case of spec/Framing.tla: a stream, cut positions, and cuts with a deadline expiry.
type Frame struct {
	Stream []FramePkt `json:"stream"`
	Cuts   []int      `json:"cuts"`
	Stalls []int      `json:"stalls"`
	B      int        `json:"b"`
	Big    string     `json:"big"`
}

// RunFrame executes one framing case in the free world with a scripted read fragmentation.
func RunFrame(id string, f *Frame) []sim.Ev {
	b := &Behaviour{ID: id, Cfg: Config{AMax: 4, EMax: 4, ReadBuf: f.B}, Epilogue: "drain"}
	x := &Exec{B: b, W: sim.NewWorld(), Store: simstore.New(), baseline: map[string]bool{}}
	current.Store(x)
	defer current.Store(nil)
	x.W.S.Free()
	x.W.S.Exempt()
	x.Store.OnOp = x.storeEvent
	x.W.Idle = make(chan int, 1)
	old := mqtt.VerifSetReadBufSize(f.B)
	defer mqtt.VerifSetReadBufSize(old)

	// the stream
	stalls := map[int]bool{}
	for _, s := range f.Stalls {
		stalls[s] = true
	}
	id16 := 0
	total := 4
	for i, p := range f.Stream {
		var pk *codec.Packet
		switch p.K {
		case "pub":
			payload := make([]byte, p.N)
			for j := range payload {
				payload[j] = byte((i+1)*31 + j*7)
			}
			pk = &codec.Packet{T: "PUBLISH", QoS: p.QoS, Topic: "t", Payload: payload}
			if p.QoS > 0 {
				id16++
				pk.ID = id16
			}
		case "dup":
			prev := x.W.Frame[len(x.W.Frame)-1]
			pk = &codec.Packet{T: "PUBLISH", QoS: 2, Dup: true, Topic: "t", Payload: prev.Payload, ID: prev.ID}
		case "pong":
			pk = &codec.Packet{T: "PINGRESP"}
		case "suback":
			pk = &codec.Packet{T: "SUBACK", ID: 0x7ff0, Codes: []int{0}}
		}
		x.W.Frame = append(x.W.Frame, pk)
		total += len(codec.Encode(pk))
	}
	// the read plan from the cuts
	var plan []sim.PlanStep
	prev := 0
	for _, c := range f.Cuts {
		plan = append(plan, sim.PlanStep{N: c - prev})
		if stalls[c] {
			plan = append(plan, sim.PlanStep{Stall: true})
		}
		prev = c
	}
	plan = append(plan, sim.PlanStep{N: total - prev})

	x.emit(sim.Ev{"e": "begin", "id": id, "amax": 4, "emax": 4, "clean": false, "readbuf": f.B, "frame": true})
	cfg := x.config()
	firstDial := true
	base := cfg.Dialer
	cfg.Dialer = func(ctx contextT) (netConn, error) {
		c, err := base(ctx)
		if err == nil && firstDial {
			firstDial = false
			c.(*sim.Conn).SetPlan(plan)
		}
		return c, err
	}
	var err error
	x.Client, err = mqtt.InitSession("verif", x.Store, cfg)
	if err != nil {
		x.emit(sim.Ev{"e": "harness-panic", "msg": err.Error()})
		return x.W.Rec.Events()
	}
	x.gen = 1
	done := make(chan struct{})
	go func() {
		defer close(done)
		x.W.S.Exempt()
		x.reader("rd", x.Client, 1, ProcSpec{Kind: "reader", Big: f.Big})
	}()
	// until the reader has nothing left to read, or gives up on the connection
	deadline := time.After(3 * time.Second)
wait:
	for {
		select {
		case <-x.W.Idle:
			if c := x.W.Conn(1); c != nil && c.Pending() == 0 {
				break wait
			}
		case <-time.After(40 * time.Millisecond):
			if c := x.W.Conn(1); c == nil || c.IsClosed() {
				break wait
			}
		case <-deadline:
			x.emit(sim.Ev{"e": "stuck", "p": "rd", "m": "ReadSlices", "phase": "frame", "site": x.stuckSite("ReadSlices")})
			break wait
		}
	}
	reset := false
	if c := x.W.Conn(1); c == nil || c.IsClosed() || len(x.W.Conns()) > 1 {
		reset = true
	}
	x.emit(sim.Ev{"e": "epilogue", "mode": "frame", "diverged": false, "reset": reset})
	cerr := x.Client.Close()
	_ = errors.Is(cerr, nil)
	select {
	case <-done:
	case <-time.After(2 * time.Second):
		x.emit(sim.Ev{"e": "stuck", "p": "rd", "m": "ReadSlices", "phase": "close", "site": x.stuckSite("ReadSlices")})
	}
	x.emit(sim.Ev{"e": "final", "keys": x.keys(), "leaks": []any{}, "openconns": []any{}, "diverged": false, "reset": reset})
	return x.W.Rec.Events()
}
