// Package runner executes one behaviour (a stimulus sequence exported by TLC, or a free-running
// scenario) against the real client built from /repo, step by step, and records every
// observable event. It compares nothing: TLC judges the recorded trace.
package runner

import (
	"encoding/hex"
	"encoding/json"
	"errors"
	"fmt"
	"io"
	"math/rand"
	"net"
	"sort"
	"strings"
	"sync"
	"sync/atomic"
	"time"

	"github.com/pascaldekloe/mqtt"

	"verif/harness/codec"
	"verif/harness/sched"
	"verif/harness/sim"
	"verif/harness/simstore"
)

// Op is one API call of a scripted process.
type Op struct {
	M       string   `json:"m"`
	Tag     int      `json:"tag"`
	Size    int      `json:"size"`
	Topic   string   `json:"topic"`
	Filters []string `json:"filters"`
	Quit    string   `json:"quit"` // nil, open, closed, later (closed by the explorer while the call is in progress)
}

// ProcSpec describes a harness goroutine using the client.
type ProcSpec struct {
	Kind string `json:"kind"` // reader, script
	Ops  []Op   `json:"ops"`
	Big  string `json:"big"` // reader: read or skip BigMessages
	// Delay (ms) before the first operation and Repeat (the operation list is run that many times): long histories in free mode
	Delay  int `json:"delay,omitempty"`
	Repeat int `json:"repeat,omitempty"`
}

// Step is one step of a behaviour.
type Step struct {
	P       string              `json:"p,omitempty"`  // process step: release P from its gate
	At      string              `json:"at,omitempty"` // expected gate site ("" = any)
	O       string              `json:"o,omitempty"`  // outcome for an I/O gate
	N       int                 `json:"n,omitempty"`
	Env     string              `json:"env,omitempty"` // environment step
	C       int                 `json:"c,omitempty"`
	Pkt     *codec.Packet       `json:"pkt,omitempty"`
	Respond bool                `json:"respond,omitempty"`
	Key     uint                `json:"key,omitempty"`
	How     string              `json:"how,omitempty"`
	Start   map[string]ProcSpec `json:"start,omitempty"`
	In      *Inbound            `json:"in,omitempty"`    // inject: the broker publishes this message
	Host    *Hostile            `json:"host,omitempty"`  // hostile: the broker sends these bytes
	Next    string              `json:"next,omitempty"`  // the gate the specification has the process at after this step ("" = unknown)
	X       map[string]any      `json:"x,omitempty"`     // the specification's projection of the client state after the step
	NWarn   *int                `json:"nwarn,omitempty"` // adopt: the number of warnings the specification's AdoptSession gives
	Note    string              `json:"note,omitempty"`
}

// Config selects the client configuration.
type Config struct {
	AMax     int  `json:"amax"`
	EMax     int  `json:"emax"`
	Clean    bool `json:"clean"`
	ReadBuf  int  `json:"readbuf"`
	NoPause  bool `json:"nopause"`
	LazyExch bool `json:"lazyexch"` // the application does not read its exchange channels until the end
	StartSeq int  `json:"startseq"` // the session starts with one pending publish per level at this sequence number
	// Seed: records an earlier incarnation left in the Persistence; the behaviour's steps damage and adopt it
	Seed     []SeedRec `json:"seed,omitempty"`
	Volatile bool      `json:"volatile"`
	WaitMin  int       `json:"waitmin_ms"`
	WaitMax  int       `json:"waitmax_ms"`
}

// SeedRec is one record of a Persistence left behind by an earlier incarnation.
type SeedRec struct {
	Key  uint   `json:"key"`
	Kind string `json:"kind"` // PUB, REL
	Tag  int    `json:"tag"`
	Sseq uint64 `json:"sseq"`
}

// Behaviour is the unit of replay.
type Behaviour struct {
	ID    string              `json:"id"`
	Cfg   Config              `json:"cfg"`
	Procs map[string]ProcSpec `json:"procs"`
	Steps []Step              `json:"steps"`
	// Auto, Mute, ListSeed: a recorded run of the explorer replayed step by step (the broker reacts on its own)
	Auto     bool     `json:"auto,omitempty"`
	Mute     []string `json:"mute,omitempty"`
	ListSeed int64    `json:"listseed,omitempty"`
	// WaitFor: processes that run to their end in free mode before the epilogue starts (long histories)
	WaitFor []string `json:"waitfor,omitempty"`
	// StallAfter: the broker stops reading the first connection after that many client writes (free mode)
	StallAfter int     `json:"stallafter,omitempty"`
	Random     *Random `json:"random,omitempty"`
	Frame      *Frame  `json:"frame,omitempty"`
	Epilogue   string  `json:"epilogue"` // drain, close, none
	Slow       int     `json:"slow"`     // multiplier for the time limits (confirmation runs)
}

// Random asks for a seeded random schedule instead of scripted steps (exploration).
type Random struct {
	Seed   int64   `json:"seed"`
	Max    int     `json:"max"`
	PWrite float64 `json:"pwrite"` // probability that a write fails (partial or not)
	// PRecFail: probability that a write which starts with a PUBREC fails (the broker then repeats the PUBLISH)
	PRecFail float64 `json:"precfail,omitempty"`
	PDial    float64 `json:"pdial"`
	PStore   float64 `json:"pstore"`
	PBreak   float64 `json:"pbreak"` // probability per step that the live connection breaks
	PStall   float64 `json:"pstall"`
	Faults   int     `json:"faults"` // fault budget
	// Inbound messages the broker publishes to the client at random moments.
	Inbound []Inbound `json:"inbound"`
	// Hostile byte strings the broker sends at random moments (property C13).
	Hostile []Hostile `json:"hostile"`
	// Gens are the process sets of the generations after a stop (one stop + adopt per entry).
	Gens  []map[string]ProcSpec `json:"gens"`
	PStop float64               `json:"pstop"`
	// Mute: acknowledgement types the broker withholds during the scheduled part (it answers again in the epilogue)
	Mute []string `json:"mute"`
	// PStopIO: probability of a stop when some process is about to do a Persistence or network write
	PStopIO float64 `json:"pstopio"`
	// Burst: the named process stays parked until step At, then runs alone until it blocks or ends
	// (Close / Disconnect issued at a chosen gate of the others and completed without interference).
	Burst *Burst `json:"burst,omitempty"`
	// InIDBase: the broker numbers its publications from here (collisions with the client's own identifiers)
	InIDBase int `json:"inidbase"`
	// Plain: stay within the vocabulary of the specification (whole reads; write faults are a reset, an expiry without
	// a byte, or an expiry after one byte) and record the client's projection after every step (code -> model validation)
	Plain bool `json:"plain"`
	// PQuit: probability per step that a quit channel of mode "later" gets closed while its call is in progress
	PQuit float64 `json:"pquit"`
	// Damage lists store damages applied between a stop and the following adopt.
	Damage []Step `json:"damage"`
}

// Hostile is one injection of raw broker-to-client bytes.
type Hostile struct {
	Hex       string `json:"hex"`
	Violation bool   `json:"violation"` // a protocol violation the client has to answer with a reset
	Note      string `json:"note"`
}

// Burst see Random.Burst.
type Burst struct {
	P  string `json:"p"`
	At int    `json:"at"`
}

// Inbound is a broker-to-client publication.
type Inbound struct {
	QoS   int  `json:"qos"`
	Tag   int  `json:"tag"`
	Size  int  `json:"size"`
	After bool `json:"after"` // only once the earlier deliveries are complete (identifier reuse)
}

type exch struct {
	tag    int
	level  int
	ch     <-chan error
	closed bool
	gen    int
}

// Exec is one execution.
type Exec struct {
	B                    *Behaviour
	W                    *sim.World
	Store                *simstore.Store
	Client               *mqtt.Client
	gen                  int
	mismatches, lastWarn int
	raced                bool
	stale                map[string]bool          // goroutines of stopped incarnations that were not parked at a gate then
	leftIn               []Inbound                // inbound publications of the behaviour that were not reached (divergence)
	quits                map[string]chan struct{} // open quit channels of mode "later", by process
	mu                   sync.Mutex
	exchs                []*exch
	diverged             string
	lastSig              string
	limit                time.Duration
	gated                atomic.Bool
	finishing            bool
	ndamage              int
	lastAt               map[string]string // gate each process was released from last
	deadConns            map[int]bool      // connections of stopped incarnations
	baseline             map[string]bool   // goroutines (by id) left behind by earlier executions in this process
}

func goroutineID(stack string) string {
	// "goroutine 123 [chan receive]:"
	if i := strings.Index(stack, " ["); i > 0 {
		return stack[:i]
	}
	return stack
}

var current atomic.Pointer[Exec]

func init() {
	mqtt.VerifYield = func(site string) {
		if x := current.Load(); x != nil {
			x.W.S.Arrive("hook", site, nil)
		}
	}
}

// ErrClass names the documented error classes an error belongs to.
func ErrClass(err error) []string {
	if err == nil {
		return []string{}
	}
	var cls []string
	add := func(b bool, s string) {
		if b {
			cls = append(cls, s)
		}
	}
	add(errors.Is(err, mqtt.ErrClosed), "closed")
	add(errors.Is(err, mqtt.ErrDown), "down")
	add(errors.Is(err, mqtt.ErrMax), "max")
	add(errors.Is(err, mqtt.ErrCanceled), "canceled")
	add(errors.Is(err, mqtt.ErrAbandoned), "abandoned")
	add(errors.Is(err, mqtt.ErrSubmit), "submit")
	add(errors.Is(err, mqtt.ErrBreak), "break")
	add(mqtt.IsDeny(err), "deny")
	add(mqtt.IsEnd(err), "end")
	add(mqtt.IsConnectionRefused(err), "refused")
	var se mqtt.SubscribeError
	add(errors.As(err, &se), "suberr")
	var big *mqtt.BigMessage
	add(errors.As(err, &big), "big")
	var ne net.Error
	add(errors.As(err, &ne) && ne.Timeout(), "timeout")
	add(strings.Contains(err.Error(), "protocol violation"), "proto")
	add(errors.Is(err, io.EOF) || errors.Is(err, io.ErrUnexpectedEOF), "eof")
	add(errors.Is(err, simstore.ErrInjected), "store")
	add(errors.Is(err, net.ErrClosed), "netclosed")
	add(errors.Is(err, sim.ErrHard), "hard")
	if len(cls) == 0 {
		cls = append(cls, "other")
	}
	return cls
}

func errMsg(err error) string {
	if err == nil {
		return ""
	}
	s := err.Error()
	if len(s) > 160 {
		s = s[:160]
	}
	return s
}

func (x *Exec) emit(e sim.Ev) {
	def := func(k string, v any) {
		if _, ok := e[k]; !ok {
			e[k] = v
		}
	}
	switch e["e"] {
	case "call":
		def("tag", 0)
		def("quit", "")
		def("filters", []any{})
	case "ret":
		def("bo", "")
		def("tag", 0)
		def("level", 0)
		def("failed", []any{})
		def("got", false)
	case "stuck":
		def("m", "")
		def("phase", "")
	case "begin":
		def("frame", false)
		def("nopause", false)
	case "final", "epilogue":
		def("reset", false)
	}
	x.W.Rec.Emit(e)
}

func (x *Exec) config() *mqtt.Config {
	c := &mqtt.Config{Dialer: x.W.Dialer, AtLeastOnceMax: x.B.Cfg.AMax, ExactlyOnceMax: x.B.Cfg.EMax,
		CleanSession: x.B.Cfg.Clean, PauseTimeout: time.Hour,
		ReconnectWaitMin: time.Millisecond, ReconnectWaitMax: 2 * time.Millisecond}
	if x.B.Cfg.NoPause {
		c.PauseTimeout = 0
	}
	if x.B.Cfg.WaitMin != 0 {
		c.ReconnectWaitMin = time.Duration(x.B.Cfg.WaitMin) * time.Millisecond
	}
	if x.B.Cfg.WaitMax != 0 {
		c.ReconnectWaitMax = time.Duration(x.B.Cfg.WaitMax) * time.Millisecond
	}
	return c
}

// Run executes the behaviour and returns the recorded events.
func Run(b *Behaviour) (events []sim.Ev) {
	x := &Exec{B: b, W: sim.NewWorld(), Store: simstore.New()}
	x.limit = 1500 * time.Millisecond
	if b.Slow > 1 {
		x.limit *= time.Duration(b.Slow)
	}
	x.baseline = map[string]bool{}
	for _, g := range sched.Stacks("pascaldekloe/mqtt.") {
		x.baseline[goroutineID(g)] = true
	}
	current.Store(x)
	defer current.Store(nil)
	x.W.S.Exempt()
	x.W.S.OnAnon = func(site string) string {
		switch {
		case strings.HasPrefix(site, "abort."):
			return "abort"
		case site == "term.seq1":
			return "term1"
		case site == "term.seq2":
			return "term2"
		}
		return ""
	}
	x.W.S.OnArrive = func(g *sched.Gate) {
		e := sim.Ev{"e": "gate", "p": g.Proc, "k": g.Kind, "site": g.Site}
		for k, v := range g.Info {
			e[k] = v
		}
		x.emit(e)
	}
	x.W.S.OnExit = func(name string) { x.emit(sim.Ev{"e": "exit", "p": name}) }
	x.W.S.IsStale = func(goid int64) bool {
		x.mu.Lock()
		defer x.mu.Unlock()
		return x.stale[fmt.Sprintf("goroutine %d", goid)]
	}
	x.W.S.OnPass = func(g *sched.Gate) {
		// in free mode only the hook sites the monitor reads as observation points are recorded
		if g.Site == "lw.got" || g.Site == "lw.wait" {
			x.emit(sim.Ev{"e": "gate", "p": g.Proc, "k": g.Kind, "site": g.Site})
		}
	}
	x.Store.Hook = func(op string, key uint) error {
		o := x.W.S.Arrive("store", "store."+op, map[string]any{"key": key})
		if o.Kind == "err" {
			return simstore.ErrInjected
		}
		return nil
	}
	x.Store.OnOp = x.storeEvent
	if b.Random != nil || b.ListSeed != 0 {
		seed := b.ListSeed
		if b.Random != nil {
			seed = b.Random.Seed + 17
		}
		lrng := rand.New(rand.NewSource(seed))
		x.Store.ListOrder = func(keys []uint) {
			lrng.Shuffle(len(keys), func(i, j int) { keys[i], keys[j] = keys[j], keys[i] })
		}
	}
	defer func() {
		if r := recover(); r != nil {
			x.emit(sim.Ev{"e": "harness-panic", "msg": fmt.Sprint(r)})
		}
		events = x.W.Rec.Events()
	}()

	old := 0
	if b.Cfg.ReadBuf > 0 {
		old = mqtt.VerifSetReadBufSize(b.Cfg.ReadBuf)
		defer mqtt.VerifSetReadBufSize(old)
	}
	// the limits as documented: negative values and values above 16384 mean 16384
	norm := func(n int) int {
		if n < 0 || n > 16384 {
			return 16384
		}
		return n
	}
	x.emit(sim.Ev{"e": "begin", "id": b.ID, "amax": norm(b.Cfg.AMax), "emax": norm(b.Cfg.EMax), "clean": b.Cfg.Clean, "readbuf": b.Cfg.ReadBuf, "nopause": b.Cfg.NoPause})
	x.gated.Store(len(b.Steps) > 0 || b.Random != nil)
	if !x.gated.Load() {
		x.W.S.Free()
	}
	var err error
	if b.Cfg.Volatile {
		x.Client, err = mqtt.VolatileSession("verif", x.config())
	} else {
		x.Client, err = mqtt.InitSession("verif", x.Store, x.config())
	}
	if err != nil {
		x.emit(sim.Ev{"e": "init", "err": ErrClass(err), "msg": errMsg(err)})
		return
	}
	x.gen = 1
	if b.Cfg.StartSeq > 0 {
		// A session as a client that got this far would have left it: one unacknowledged publish per
		// level, saved in the library's own record format; the client under test adopts it.
		for lvl := 1; lvl <= 2; lvl++ {
			key := uint(0x8000)
			if lvl == 2 {
				key = 0xc000
			}
			key |= uint(b.Cfg.StartSeq) & 0x3fff
			pkt := codec.Encode(&codec.Packet{T: "PUBLISH", QoS: lvl, ID: int(key), Topic: "t", Payload: codec.Payload(9000+lvl, 8)})
			var val []byte
			for _, part := range mqtt.VerifEncodeValue(net.Buffers{pkt}, uint64(10+lvl)) {
				val = append(val, part...)
			}
			x.Store.Put(key, val)
			x.storeEvent(simstore.Op{Op: "Save", Key: key, Val: val}, true)
		}
		x.emit(sim.Ev{"e": "stop", "gen": 1, "keys": x.keys()})
		x.gen = 1
		x.Client = nil
		x.adopt()
		if x.Client == nil {
			return
		}
	}
	if len(b.Cfg.Seed) > 0 {
		// in the order of their storage sequence numbers, as the earlier incarnation wrote them
		seed := append([]SeedRec(nil), b.Cfg.Seed...)
		// (a transfer at the PUBREL stage was accepted before those still at the PUBLISH stage)
		sort.Slice(seed, func(i, j int) bool {
			if (seed[i].Kind == "REL") != (seed[j].Kind == "REL") {
				return seed[i].Kind == "REL"
			}
			return seed[i].Sseq < seed[j].Sseq
		})
		put := func(key uint, pkt []byte, sseq uint64) {
			var val []byte
			for _, part := range mqtt.VerifEncodeValue(net.Buffers{pkt}, sseq) {
				val = append(val, part...)
			}
			x.Store.Put(key, val)
			x.storeEvent(simstore.Op{Op: "Save", Key: key, Val: val}, true)
		}
		for _, r := range seed {
			lvl := 1
			if r.Key&0xc000 == 0xc000 {
				lvl = 2
			}
			pub := codec.Encode(&codec.Packet{T: "PUBLISH", QoS: lvl, ID: int(r.Key), Topic: "t", Payload: codec.Payload(r.Tag, 8)})
			if r.Kind == "REL" {
				// that transfer got as far as the PUBREC: the broker forwarded it and awaits the PUBREL
				put(r.Key, pub, r.Sseq-1)
				x.emit(sim.Ev{"e": "seedrec", "tag": r.Tag})
				x.W.Broker.Awaiting(int(r.Key))
				put(r.Key, codec.Encode(&codec.Packet{T: "PUBREL", ID: int(r.Key)}), r.Sseq)
			} else {
				put(r.Key, pub, r.Sseq)
			}
		}
		x.emit(sim.Ev{"e": "stop", "gen": 1, "keys": x.keys()})
		x.gen = 1
		x.Client = nil
	}
	x.W.StallAfter = b.StallAfter
	// (before the processes start: in free mode they are under way at once)
	for _, t := range b.Mute {
		x.W.Broker.Mute[t] = true
	}
	if b.Auto {
		x.W.AutoBroker = true
	}
	if x.Client != nil {
		x.startProcs(b.Procs)
	}
	for i := range b.Steps {
		if !x.step(i, &b.Steps[i]) {
			// the behaviour is left here; what the broker had still to publish is published in the epilogue, so that a
			// wrong turn of the client meets the rest of the scenario (an identifier that gets reused, say)
			for _, st := range b.Steps[i+1:] {
				if st.Env == "bsend" && st.Pkt != nil && st.Pkt.T == "PUBLISH" && !st.Pkt.Dup {
					x.leftIn = append(x.leftIn, Inbound{QoS: st.Pkt.QoS, Tag: st.Pkt.Tag, Size: st.Pkt.Len})
				}
			}
			break
		}
	}
	if b.Random != nil {
		x.randomRun(b.Random)
	} else if x.diverged != "" && x.Client != nil && len(b.Steps) > 0 {
		// The code left the behaviour.  Instead of letting everything run free at once, the explorer takes over for a
		// while (seeded by the behaviour's name): a client that took a wrong turn still meets faults, other schedules
		// and the publications the behaviour had not got to.
		h := fnv([]byte(b.ID))
		r := &Random{Seed: int64(h), Max: 150, Faults: 2, PWrite: 0.3, PDial: 0.1, PBreak: 0.1, Inbound: x.leftIn}
		for i := range r.Inbound {
			if r.Inbound[i].Size == 0 {
				r.Inbound[i].Size = 8
			}
			r.Inbound[i].After = true
		}
		x.leftIn = nil
		for _, c := range x.W.Conns() {
			if !c.IsClosed() {
				x.W.Broker.Pump(c)
			}
		}
		x.emit(sim.Ev{"e": "takeover", "seed": int(r.Seed)})
		x.randomRun(r)
	}
	if len(b.WaitFor) > 0 {
		x.W.S.Free()
		deadline := time.Now().Add(300 * time.Second)
		all := false
		for !all && time.Now().Before(deadline) {
			all = true
			for _, n := range b.WaitFor {
				all = all && x.W.S.Done(n)
			}
			if !all {
				x.pollExchanges()
				time.Sleep(2 * time.Millisecond)
			}
		}
		if !all {
			// the long history did not get to its end (an overloaded machine): the run says nothing
			x.emit(sim.Ev{"e": "harness-incomplete", "what": "waitfor"})
		}
	}
	for _, t := range b.Mute {
		delete(x.W.Broker.Mute, t)
	}
	x.epilogue()
	return
}

func (x *Exec) startProcs(procs map[string]ProcSpec) {
	names := make([]string, 0, len(procs))
	for n := range procs {
		names = append(names, n)
	}
	// deterministic start order
	for i := range names {
		for j := i + 1; j < len(names); j++ {
			if names[j] < names[i] {
				names[i], names[j] = names[j], names[i]
			}
		}
	}
	client, gen := x.Client, x.gen
	for _, n := range names {
		spec := procs[n]
		name := n
		switch spec.Kind {
		case "reader":
			x.W.S.Go(name, func() { x.reader(name, client, gen, spec) })
		default:
			x.W.S.Go(name, func() { x.script(name, client, gen, spec) })
		}
		if x.gated.Load() {
			x.W.S.WaitParked(name, x.limit)
		}
	}
}

func (x *Exec) reader(name string, c *mqtt.Client, gen int, spec ProcSpec) {
	defer func() {
		if r := recover(); r != nil {
			x.emit(sim.Ev{"e": "panic", "p": name, "msg": fmt.Sprint(r), "site": panicSite()})
		}
	}()
	fails, lastErr := 0, ""
	for n := 0; ; n++ {
		if fails >= 40 && x.W.S.IsFree() {
			// reconnect loop in the healed world: the client cannot get online any more
			x.emit(sim.Ev{"e": "stuck", "p": name, "m": "ReadSlices", "phase": "loop", "site": "reconnect-loop: " + lastErr})
			<-c.Offline() // only released for good by Close
			for {
				time.Sleep(5 * time.Millisecond)
				if x.closedByScenario() || x.Client != c {
					break
				}
			}
			fails = 0
		}
		x.W.S.Arrive("call", "ReadSlices", nil)
		x.emit(sim.Ev{"e": "call", "p": name, "m": "ReadSlices", "gen": gen})
		msg, topic, err := c.ReadSlices()
		e := sim.Ev{"e": "ret", "p": name, "m": "ReadSlices", "gen": gen, "err": ErrClass(err), "msg": errMsg(err),
			"got": err == nil, "topic": string(topic), "len": len(msg), "tag": codec.TagOf(msg), "sum": fnv(msg)}
		var big *mqtt.BigMessage
		if errors.As(err, &big) {
			e["bigsize"], e["bigtopic"] = big.Size, big.Topic
			e["tag"] = x.W.Broker.TagBySize(big.Size) // which delivery this is (sizes are distinct per scenario)
		}
		x.emit(e)
		if big != nil && spec.Big != "skip" {
			x.emit(sim.Ev{"e": "call", "p": name, "m": "ReadAll", "gen": gen})
			all, rerr := big.ReadAll()
			x.emit(sim.Ev{"e": "ret", "p": name, "m": "ReadAll", "gen": gen, "err": ErrClass(rerr), "msg": errMsg(rerr),
				"len": len(all), "tag": codec.TagOf(all), "sum": fnv(all), "topic": big.Topic})
		}
		if errors.Is(err, mqtt.ErrClosed) {
			x.emit(sim.Ev{"e": "backoff", "p": name, "nil": c.ReadBackoff(err) == nil, "late": false, "closed": true, "ms": 0})
			return
		}
		if err != nil && big == nil {
			// ReadBackoff: a channel that closes within the configured bounds (the only wall-clock measurement:
			// the upper bound is taken with 300 ms of slack for a loaded machine)
			cfg := x.config()
			t0 := time.Now()
			ch := c.ReadBackoff(err)
			late := false
			select {
			case <-ch:
			case <-time.After(cfg.ReconnectWaitMax + 300*time.Millisecond):
				late = true
			}
			x.emit(sim.Ev{"e": "backoff", "p": name, "nil": ch == nil, "late": late, "closed": false, "ms": int(time.Since(t0) / time.Millisecond)})
		}
		if err != nil && big == nil && x.W.S.IsFree() {
			fails++
			lastErr = errMsg(err)
		} else {
			fails = 0
		}
	}
}

func fnv(b []byte) uint32 {
	h := uint32(2166136261)
	for _, v := range b {
		h ^= uint32(v)
		h *= 16777619
	}
	return h
}

func (x *Exec) quitChan(name, s string) <-chan struct{} {
	switch s {
	case "later":
		ch := make(chan struct{})
		x.mu.Lock()
		if x.quits == nil {
			x.quits = map[string]chan struct{}{}
		}
		x.quits[name] = ch
		x.mu.Unlock()
		return ch
	case "open":
		return make(chan struct{})
	case "closed":
		ch := make(chan struct{})
		close(ch)
		return ch
	}
	return nil
}

func (x *Exec) script(name string, c *mqtt.Client, gen int, spec ProcSpec) {
	defer func() {
		if r := recover(); r != nil {
			x.emit(sim.Ev{"e": "panic", "p": name, "msg": fmt.Sprint(r), "site": panicSite()})
		}
	}()
	if spec.Delay > 0 {
		time.Sleep(time.Duration(spec.Delay) * time.Millisecond)
	}
	ops := spec.Ops
	for r := 1; r < spec.Repeat; r++ {
		ops = append(ops, spec.Ops...)
	}
	for i := range ops {
		op := &ops[i]
		x.W.S.Arrive("call", op.M, map[string]any{"tag": op.Tag})
		x.emit(sim.Ev{"e": "call", "p": name, "m": op.M, "gen": gen, "tag": op.Tag, "quit": op.Quit, "filters": strs(op.Filters)})
		var err error
		topic := op.Topic
		if topic == "" {
			topic = "t"
		}
		size := op.Size
		payload := codec.Payload(op.Tag, size)
		var ch <-chan error
		level := 0
		switch op.M {
		case "Publish":
			err = c.Publish(x.quitChan(name, op.Quit), payload, topic)
		case "PublishRetained":
			err = c.PublishRetained(x.quitChan(name, op.Quit), payload, topic)
		case "PublishAtLeastOnce":
			ch, err = c.PublishAtLeastOnce(payload, topic)
			level = 1
		case "PublishAtLeastOnceRetained":
			ch, err = c.PublishAtLeastOnceRetained(payload, topic)
			level = 1
		case "PublishExactlyOnce":
			ch, err = c.PublishExactlyOnce(payload, topic)
			level = 2
		case "PublishExactlyOnceRetained":
			ch, err = c.PublishExactlyOnceRetained(payload, topic)
			level = 2
		case "Subscribe":
			err = c.Subscribe(x.quitChan(name, op.Quit), op.Filters...)
		case "SubscribeLimitAtMostOnce":
			err = c.SubscribeLimitAtMostOnce(x.quitChan(name, op.Quit), op.Filters...)
		case "SubscribeLimitAtLeastOnce":
			err = c.SubscribeLimitAtLeastOnce(x.quitChan(name, op.Quit), op.Filters...)
		case "Unsubscribe":
			err = c.Unsubscribe(x.quitChan(name, op.Quit), op.Filters...)
		case "Ping":
			err = c.Ping(x.quitChan(name, op.Quit))
		case "Close":
			err = c.Close()
		case "Disconnect":
			err = c.Disconnect(x.quitChan(name, op.Quit))
		default:
			err = fmt.Errorf("harness: unknown method %q", op.M)
		}
		x.mu.Lock()
		delete(x.quits, name)
		x.mu.Unlock()
		e := sim.Ev{"e": "ret", "p": name, "m": op.M, "gen": gen, "tag": op.Tag, "err": ErrClass(err), "msg": errMsg(err), "level": level}
		var se mqtt.SubscribeError
		if errors.As(err, &se) {
			e["failed"] = strs([]string(se))
		}
		if err != nil {
			e["bo"] = "chan"
			if c.Backoff(err) == nil {
				e["bo"] = "nil"
			}
		}
		if level > 0 && err == nil {
			x.mu.Lock()
			x.exchs = append(x.exchs, &exch{tag: op.Tag, level: level, ch: ch, gen: gen})
			x.mu.Unlock()
		}
		x.emit(e)
	}
}

func strs(s []string) []any {
	r := make([]any, 0, len(s))
	for _, v := range s {
		r = append(r, v)
	}
	return r
}

func panicSite() string {
	for _, g := range sched.Stacks("pascaldekloe/mqtt") {
		if strings.Contains(g, "panic") {
			return firstFrame(g)
		}
	}
	return ""
}

func firstFrame(stack string) string {
	lines := strings.Split(stack, "\n")
	for i, l := range lines {
		if strings.HasPrefix(l, "github.com/pascaldekloe/mqtt") && !strings.Contains(l, "erifYield") && i+1 < len(lines) {
			loc := strings.TrimSpace(lines[i+1])
			if j := strings.Index(loc, " +"); j > 0 {
				loc = loc[:j]
			}
			fn := l
			if j := strings.Index(fn, "("); j > 0 {
				fn = strings.TrimPrefix(fn[:strings.LastIndex(fn, "(")], "github.com/pascaldekloe/mqtt.")
			}
			return fn + " " + strings.TrimPrefix(loc, "/repo/")
		}
	}
	return ""
}

// pollExchanges records what arrived on the exchange channels.
func (x *Exec) pollExchanges() {
	if x.B.Cfg.LazyExch && !x.finishing {
		return
	}
	x.mu.Lock()
	list := append([]*exch(nil), x.exchs...)
	x.mu.Unlock()
	for _, ex := range list {
		for !ex.closed {
			select {
			case err, ok := <-ex.ch:
				if !ok {
					ex.closed = true
					x.emit(sim.Ev{"e": "ex", "tag": ex.tag, "level": ex.level, "gen": ex.gen, "v": "closed", "err": []string{}})
				} else {
					x.emit(sim.Ev{"e": "ex", "tag": ex.tag, "level": ex.level, "gen": ex.gen, "v": "err", "err": ErrClass(err), "msg": errMsg(err)})
				}
				continue
			default:
			}
			break
		}
	}
}

func (x *Exec) sampleSignals() {
	if x.Client == nil {
		return
	}
	read := func() (on, off bool) {
		select {
		case <-x.Client.Online():
			on = true
		default:
		}
		select {
		case <-x.Client.Offline():
			off = true
		default:
		}
		return
	}
	on, off := read()
	// The two channels are read one after the other: "both released" only counts when it persists.
	for i := 0; on && off && i < 3; i++ {
		time.Sleep(200 * time.Microsecond)
		on, off = read()
	}
	s := fmt.Sprint(on, off)
	if s != x.lastSig {
		x.lastSig = s
		x.emit(sim.Ev{"e": "sig", "online": on, "offline": off, "gen": x.gen})
	}
}

func (x *Exec) snapshot() {
	if x.Client == nil {
		return
	}
	s := x.Client.VerifSnapshot()
	x.emit(sim.Ev{"e": "snap", "acked": s.Acked, "received": s.Received, "completed": s.Completed,
		"accept1": s.AcceptN[0], "accept2": s.AcceptN[1], "submit1": s.SubmitN[0], "submit2": s.SubmitN[1],
		"q1": s.QueueLen[0], "q2": s.QueueLen[1], "pack": len(s.PendingAck), "rc": s.HasReadConn, "big": s.HasBig,
		"wsem": s.WriteSem, "csem": s.ConnSem, "ping": s.PingSlot, "utx": s.UnorderedPending, "online": s.Online, "offline": s.Offline})
}

func (x *Exec) diverge(i int, why string) bool {
	if x.diverged == "" {
		if x.raced && !strings.HasPrefix(why, "select-race") {
			why = "select-race (at an earlier lw.wait): " + why
		}
		x.diverged = why
		x.emit(sim.Ev{"e": "diverge", "step": i + 1, "why": why})
	}
	return false
}

// step executes one step; false ends the gated part.
func (x *Exec) step(i int, st *Step) bool {
	if st.Env != "" {
		return x.envStep(i, st)
	}
	g, done := x.W.S.WaitParked(st.P, x.limit)
	if g == nil {
		if done {
			if x.lastAt[st.P] == "lw.wait" {
				return x.diverge(i, "select-race: "+fmt.Sprintf("process %s has ended, step expects it at %q", st.P, st.At))
			}
			return x.diverge(i, fmt.Sprintf("process %s has ended, step expects it at %q", st.P, st.At))
		}
		return x.diverge(i, fmt.Sprintf("process %s is not at a gate, step expects it at %q", st.P, st.At))
	}
	if st.At != "" && st.At != g.Site {
		if x.lastAt[st.P] == "lw.wait" {
			// lockWrite's select had several ready cases (context done, ticker)
			return x.diverge(i, "select-race: "+fmt.Sprintf("process %s is at %q, step expects %q", st.P, g.Site, st.At))
		}
		if strings.HasPrefix(st.At, "abort.") && strings.HasPrefix(g.Site, "abort.") {
			// Go chose the other ready case of the select in the abort goroutine
			return x.diverge(i, "select-race: "+fmt.Sprintf("process %s is at %q, step expects %q", st.P, g.Site, st.At))
		}
		return x.diverge(i, fmt.Sprintf("process %s is at %q, step expects %q", st.P, g.Site, st.At))
	}
	x.emit(sim.Ev{"e": "step", "i": i + 1, "p": st.P, "at": g.Site, "o": st.O, "n": st.N})
	if x.lastAt == nil {
		x.lastAt = map[string]string{}
	}
	x.lastAt[st.P] = g.Site
	x.W.S.Release(st.P, sched.Outcome{Kind: st.O, N: st.N})
	// let the process reach its next gate (or end); a process that blocks inside the library is
	// picked up again when a later step needs it
	wait := 30 * time.Millisecond
	if g.Site == "lw.wait" {
		wait = 200 * time.Millisecond
	}
	ng, ended := x.W.S.WaitParked(st.P, wait)
	x.pollExchanges()
	x.sampleSignals()
	if g.Site == "lw.wait" && st.Next != "" && ((ng != nil && ng.Site != st.Next) || ended) {
		// lockWrite's select had two ready cases (context cancelled and ticker): Go chose the other one
		return x.diverge(i, "select-race: "+fmt.Sprintf("process %s left lw.wait for another gate than %q", st.P, st.Next))
	}
	if st.X != nil && (ng != nil || ended) {
		x.compare(i, st.X, g.Site)
	}
	return true
}

// compare checks the projection of the real client against the one of the specification (model -> code conformance
// in state, not only in control).  A difference is recorded; it is a deviation of the model, not a verdict.
func (x *Exec) compare(i int, want map[string]any, site string) {
	if x.Client == nil || x.mismatches >= 3 {
		return
	}
	s := x.Client.VerifSnapshot()
	got := map[string]any{"acked": int(s.Acked), "received": int(s.Received), "completed": int(s.Completed),
		"accept1": s.AcceptN[0], "accept2": s.AcceptN[1], "submit1": s.SubmitN[0], "submit2": s.SubmitN[1],
		"q1": s.QueueLen[0], "q2": s.QueueLen[1], "pack": len(s.PendingAck) > 0, "wsem": s.WriteSem, "csem": s.ConnSem,
		"ping": s.PingSlot, "utx": s.UnorderedPending, "online": s.Online, "offline": s.Offline}
	for f, w := range want {
		g, ok := got[f]
		if !ok {
			continue
		}
		if wf, isf := w.(float64); isf {
			gi, _ := g.(int)
			// a sequence semaphore is taken by a helper goroutine the moment it is free: not comparable then
			if (strings.HasPrefix(f, "accept") || strings.HasPrefix(f, "submit")) && (wf < 0 || gi < 0) {
				continue
			}
			if int(wf) == gi {
				continue
			}
		} else if w == g {
			continue
		}
		x.mismatches++
		if site == "lw.wait" {
			// lockWrite's select had two ready cases (context cancelled and ticker): Go chose the other one
			x.mismatches = 99
			x.raced = true
			x.emit(sim.Ev{"e": "mismatch", "step": i + 1, "field": f, "want": w, "got": g, "race": "select-race"})
			return
		}
		x.emit(sim.Ev{"e": "mismatch", "step": i + 1, "field": f, "want": w, "got": g})
	}
}

func (x *Exec) envStep(i int, st *Step) bool {
	ev := sim.Ev{"e": "step", "i": i + 1, "env": st.Env, "c": st.C}
	switch st.Env {
	case "damage":
		ev["key"], ev["how"] = int(st.Key), st.How
	case "adopt", "start":
		if st.Start != nil {
			ev["start"] = noNull(st.Start)
		}
	case "inject":
		if st.In != nil {
			ev["in"] = noNull(st.In)
		}
	case "hostile":
		if st.Host != nil {
			ev["host"] = noNull(st.Host)
		}
	case "quit":
		ev["p"] = st.P
	}
	x.emit(ev)
	switch st.Env {
	case "inject":
		c := x.W.Conn(st.C)
		if c == nil || st.In == nil {
			return x.diverge(i, "inject: no such connection")
		}
		x.W.Broker.Publish(c, st.In.QoS, "in/t", codec.Payload(st.In.Tag, st.In.Size), false)
	case "hostile":
		c := x.W.Conn(st.C)
		if c == nil || st.Host == nil {
			return x.diverge(i, "hostile: no such connection")
		}
		raw, _ := hex.DecodeString(st.Host.Hex)
		// judged as a violation only when it starts at a packet boundary of the stream
		x.W.Rec.Emit(sim.Ev{"e": "bsraw", "c": c.ID(), "n": len(raw), "note": st.Host.Note, "violation": st.Host.Violation && c.Aligned()})
		c.Inject(raw)
	case "quit":
		x.mu.Lock()
		ch := x.quits[st.P]
		delete(x.quits, st.P)
		x.mu.Unlock()
		if ch == nil {
			return x.diverge(i, "quit: process "+st.P+" has no open quit channel")
		}
		close(ch)
		x.W.S.WaitParked(st.P, 30*time.Millisecond)
	case "bsend":
		c := x.W.Conn(st.C)
		if c == nil || st.Pkt == nil {
			return x.diverge(i, "bsend: no such connection")
		}
		p := *st.Pkt
		if p.T == "PUBLISH" && p.Payload == nil {
			p.Payload = codec.Payload(p.Tag, p.Len)
		}
		x.W.Broker.SendPacket(c, &p)
	case "brecv":
		c := x.W.Conn(st.C)
		if c == nil || !x.W.Broker.Consume(c, st.Respond) {
			return x.diverge(i, "brecv: nothing to consume")
		}
	case "bclose":
		if c := x.W.Conn(st.C); c != nil {
			c.BrokerClose()
		}
	case "break":
		if c := x.W.Conn(st.C); c != nil {
			c.Break()
		}
	case "stop":
		x.pollExchanges()
		x.emit(sim.Ev{"e": "stop", "gen": x.gen, "keys": x.keys()})
		x.W.S.KillAll(nil)
		x.Client = nil
		for _, g := range sched.Stacks("pascaldekloe/mqtt.") {
			x.baseline[goroutineID(g)] = true // blocked inside the library when the process stopped

		}
		// every goroutine that is inside the library now belongs to the stopped incarnation, also one that is on its way
		// to its next gate: it never continues
		x.mu.Lock()
		if x.stale == nil {
			x.stale = map[string]bool{}
		}
		for _, g := range sched.AllStacks("pascaldekloe/mqtt.") {
			x.stale[goroutineID(g)] = true
		}
		x.mu.Unlock()
		x.W.S.KillAll(nil) // (one that reached a gate in the mean time)
		for _, c := range x.W.Conns() {
			c.Break()
			if x.deadConns == nil {
				x.deadConns = map[int]bool{}
			}
			x.deadConns[c.ID()] = true
		}
	case "adopt":
		x.adopt()
		if st.NWarn != nil && *st.NWarn != x.lastWarn {
			x.emit(sim.Ev{"e": "mismatch", "step": i + 1, "field": "nwarn", "want": *st.NWarn, "got": x.lastWarn})
		}
		if st.X != nil {
			x.compare(i, st.X, "adopt")
		}
		if st.Start != nil && x.Client != nil {
			x.startProcs(st.Start)
		}
	case "start":
		if st.Start != nil && x.Client != nil {
			x.startProcs(st.Start)
		}
	case "damage":
		x.damage(st.Key, st.How)
	default:
		return x.diverge(i, "unknown environment step "+st.Env)
	}
	x.sampleSignals()
	return true
}

// noNull renders a value as plain JSON data without null (TLC's Json module rejects null).
func noNull(v any) any {
	b, err := json.Marshal(v)
	if err != nil {
		return ""
	}
	var r any
	if json.Unmarshal(b, &r) != nil {
		return ""
	}
	var walk func(any) any
	walk = func(x any) any {
		switch t := x.(type) {
		case nil:
			return []any{}
		case map[string]any:
			for k, e := range t {
				t[k] = walk(e)
			}
			return t
		case []any:
			for i, e := range t {
				t[i] = walk(e)
			}
			return t
		}
		return x
	}
	return walk(r)
}

func (x *Exec) keys() []any {
	r := []any{}
	for _, k := range x.Store.Keys() {
		r = append(r, int(k))
	}
	return r
}

func (x *Exec) damage(key uint, how string) {
	v, ok := x.Store.Get(key)
	x.emit(sim.Ev{"e": "damage", "key": int(key), "how": how, "present": ok})
	if !ok {
		return
	}
	switch how {
	case "flip":
		x.ndamage++
		v[(len(v)/2+x.ndamage)%len(v)] ^= 0x40 // a different byte each time: two flips never cancel
		x.Store.Put(key, v)
	case "trunc":
		x.Store.Put(key, v[:len(v)/2])
	case "remove":
		x.Store.Remove(key)
	}
}

func (x *Exec) adopt() {
	x.gen++
	var client *mqtt.Client
	var warn []error
	var fatal error
	func() {
		defer func() {
			if r := recover(); r != nil {
				x.emit(sim.Ev{"e": "panic", "p": "env", "msg": fmt.Sprint(r), "site": "AdoptSession"})
			}
		}()
		client, warn, fatal = mqtt.AdoptSession(x.Store, x.config())
	}()
	ws := []any{}
	for _, w := range warn {
		ws = append(ws, errMsg(w))
	}
	e := sim.Ev{"e": "adopt", "gen": x.gen, "warn": ws, "nwarn": len(warn), "fatal": fatal != nil, "msg": errMsg(fatal), "keys": x.keys()}
	x.Client = client
	x.lastWarn = len(warn)
	if fatal != nil {
		x.Client = nil
	}
	x.emit(e)
	x.lastSig = ""
	if x.Client != nil {
		x.snapshot()
	}
}

// epilogue: free mode, healed network, conforming broker; drain, close, report what is left.
func (x *Exec) epilogue() {
	x.emit(sim.Ev{"e": "epilogue", "mode": x.B.Epilogue, "diverged": x.diverged != ""})
	x.W.S.Free()
	if x.B.Epilogue == "none" || x.Client == nil {
		x.finish()
		return
	}
	stop := make(chan struct{})
	var wg sync.WaitGroup
	wg.Add(1)
	go func() { // exchange poller
		defer wg.Done()
		x.W.S.Exempt()
		for {
			x.pollExchanges()
			x.sampleSignals()
			select {
			case <-stop:
				return
			case <-time.After(300 * time.Microsecond):
			}
		}
	}()
	if (x.B.Random != nil && len(x.B.Random.Mute) > 0) || len(x.B.Mute) > 0 {
		// acknowledgements were withheld: the network heals with a connection loss, so that the client resends
		for _, c := range x.W.Conns() {
			if !c.IsClosed() {
				c.Break()
			}
		}
	}
	// connections that were left with unread or unconsumed data: let the broker catch up
	for _, c := range x.W.Conns() {
		if !c.IsClosed() {
			x.W.Broker.Pump(c)
		}
	}
	quiet := 250 * time.Millisecond
	if x.B.Slow > 1 {
		quiet *= time.Duration(x.B.Slow)
	}
	for _, in := range x.leftIn {
		// one after the other, each once the earlier deliveries are complete (the broker reuses identifiers then)
		x.waitQuiet(quiet, 2*x.limit, func() bool {
			c := x.W.Conn(len(x.W.Conns()))
			return x.closedByScenario() || (c != nil && !c.IsClosed() && c.Established() && x.W.Broker.OutPending() == 0)
		})
		if c := x.W.Conn(len(x.W.Conns())); c != nil && !c.IsClosed() && c.Established() && !x.closedByScenario() {
			size := in.Size
			if size == 0 {
				size = 8
			}
			x.emit(sim.Ev{"e": "step", "i": 0, "env": "inject", "c": c.ID()})
			x.W.Broker.Publish(c, in.QoS, "in/t", codec.Payload(in.Tag, size), false)
		}
	}
	drained := x.waitQuiet(quiet, 4*x.limit, func() bool { return x.drained() || x.closedByScenario() })
	if !drained {
		x.reportStuck("drain")
	} else if !x.closedByScenario() {
		// quiescent: queue lengths must match what is pending.  The read routine may still be inside the handler of the
		// last acknowledgement (record deleted, counter not yet advanced): wait until two looks agree and nothing happened.
		for i := 0; i < 100; i++ {
			n0 := x.W.Rec.Len()
			a := x.Client.VerifSnapshot()
			time.Sleep(2 * time.Millisecond)
			b := x.Client.VerifSnapshot()
			if x.W.Rec.Len() == n0 && a.Acked == b.Acked && a.Received == b.Received && a.Completed == b.Completed &&
				a.QueueLen == b.QueueLen && a.AcceptN == b.AcceptN {
				break
			}
		}
		x.snapshot()
	}
	if x.B.Epilogue != "drain-noclose" {
		closed := make(chan struct{})
		go func() {
			x.W.S.Exempt()
			x.emit(sim.Ev{"e": "call", "p": "env", "m": "Close", "gen": x.gen})
			err := x.Client.Close()
			x.emit(sim.Ev{"e": "ret", "p": "env", "m": "Close", "gen": x.gen, "err": ErrClass(err), "msg": errMsg(err), "tag": 0, "level": 0})
			close(closed)
		}()
		select {
		case <-closed:
		case <-time.After(4 * x.limit):
			x.emit(sim.Ev{"e": "stuck", "p": "env", "m": "Close", "site": x.stuckSite("Close")})
		}
		ended := x.waitQuiet(quiet, 4*x.limit, func() bool { return len(x.W.S.Names()) == 0 })
		if !ended {
			x.reportStuck("close")
		}
	}
	close(stop)
	wg.Wait()
	x.finish()
}

// closedByScenario: a scripted Close or Disconnect ran, so that draining cannot be expected.
func (x *Exec) closedByScenario() bool {
	if x.Client == nil {
		return true
	}
	select {
	case <-x.Client.Offline():
	default:
		return false
	}
	s := x.Client.VerifSnapshot()
	return s.ConnSem == "closed"
}

func (x *Exec) drained() bool {
	for _, n := range x.W.S.Names() {
		spec, ok := x.B.Procs[n]
		if ok && spec.Kind == "reader" {
			continue
		}
		if strings.HasPrefix(n, "rd") {
			continue
		}
		return false // a scripted process (or library goroutine) is still busy
	}
	x.mu.Lock()
	defer x.mu.Unlock()
	for _, ex := range x.exchs {
		if !ex.closed && ex.gen == x.gen {
			return false
		}
	}
	if x.W.Broker.OutPending() != 0 {
		return false
	}
	for _, k := range x.Store.Keys() {
		if k >= 0x8000 && k < 0x10000 {
			return false // an outbound transfer (also one adopted from an earlier incarnation) is still pending
		}
	}
	for _, c := range x.W.Conns() {
		if !c.IsClosed() && c.Pending() != 0 {
			return false
		}
	}
	return true
}

// waitQuiet waits until cond holds; gives up when nothing was recorded for quiet, or after max.
func (x *Exec) waitQuiet(quiet, max time.Duration, cond func() bool) bool {
	start := time.Now()
	last, lastN := time.Now(), x.W.Rec.Len()
	for {
		if cond() {
			return true
		}
		if n := x.W.Rec.Len(); n != lastN {
			last, lastN = time.Now(), n
		}
		if time.Since(last) > quiet || time.Since(start) > max {
			return cond()
		}
		time.Sleep(200 * time.Microsecond)
	}
}

func (x *Exec) stuckSite(method string) string {
	for _, g := range sched.Stacks("pascaldekloe/mqtt") {
		if x.baseline[goroutineID(g)] {
			continue
		}
		if strings.Contains(g, "mqtt.(*Client)."+method) {
			return firstFrame(g)
		}
	}
	return ""
}

// readerWhere names the library function the read routine is in ("" = none, or waiting for input in conn.Read).
func (x *Exec) readerWhere() (string, []string) {
	var stacks []string
	where := ""
	// (free mode: a goroutine that is passing through a hook is running, not parked)
	for _, g := range sched.StacksAll("pascaldekloe/mqtt.(*Client)") {
		if x.baseline[goroutineID(g)] {
			continue
		}
		if strings.Contains(g, "sched.(*S).Arrive") {
			// parked at a gate, or a goroutine of a stopped incarnation (select {}): not passing through
			st := g
			if k := strings.Index(st, "\n"); k > 0 {
				st = st[:k]
			}
			if strings.Contains(st, "[select") || strings.Contains(st, "[chan ") || strings.Contains(st, "Cond.Wait") {
				continue
			}
		}
		stacks = append(stacks, g)
		if strings.Contains(g, "runner.(*Exec).reader") && !strings.Contains(g, "sim.(*Conn).Read") {
			if j := strings.Index(g, "mqtt.(*Client)."); j >= 0 {
				where = g[j+len("mqtt.(*Client)."):]
				if k := strings.IndexAny(where, "(\n"); k > 0 {
					where = where[:k]
				}
			}
		}
	}
	return where, stacks
}

func (x *Exec) reportStuck(phase string) {
	where, stacks := x.readerWhere()
	if phase == "drain" && where != "" {
		// not a passing moment: the read routine is found in the same function, away from conn.Read, three times
		for i := 0; i < 2 && where != ""; i++ {
			time.Sleep(3 * time.Millisecond)
			if w, _ := x.readerWhere(); w != where {
				where = ""
			}
		}
	}
	live := x.W.S.Names()
	for _, n := range live {
		if phase == "drain" && strings.HasPrefix(n, "rd") && where == "" {
			// the read routine legitimately waits for input inside conn.Read (or at its call gate)
			continue
		}
		site := ""
		method := ""
		for _, g := range stacks {
			if strings.Contains(g, "runner.(*Exec)."+"reader") && strings.HasPrefix(n, "rd") ||
				strings.Contains(g, "runner.(*Exec).script") && !strings.HasPrefix(n, "rd") {
				site = firstFrame(g)
				if j := strings.Index(g, "mqtt.(*Client)."); j >= 0 {
					method = g[j+len("mqtt.(*Client)."):]
					if k := strings.IndexAny(method, "(\n"); k > 0 {
						method = method[:k]
					}
				}
			}
		}
		x.emit(sim.Ev{"e": "stuck", "p": n, "phase": phase, "site": site, "m": method})
	}
	x.mu.Lock()
	for _, ex := range x.exchs {
		if !ex.closed && ex.gen == x.gen {
			x.emit(sim.Ev{"e": "undrained", "tag": ex.tag, "level": ex.level, "phase": phase})
		}
	}
	x.mu.Unlock()
}

func (x *Exec) finish() {
	x.finishing = true
	x.pollExchanges()
	time.Sleep(2 * time.Millisecond)
	leaks := []any{}
	for _, g := range sched.Stacks("pascaldekloe/mqtt.") {
		if strings.Contains(g, "runner.Run(") || strings.Contains(g, "sched.(*S).Arrive") || x.baseline[goroutineID(g)] {
			continue
		}
		leaks = append(leaks, firstFrame(g))
	}
	open := []any{}
	for _, c := range x.W.Conns() {
		if !c.IsClosed() && !x.deadConns[c.ID()] {
			open = append(open, c.ID())
		}
	}
	x.emit(sim.Ev{"e": "final", "keys": x.keys(), "leaks": leaks, "openconns": open, "diverged": x.diverged != ""})
}

// randomRun drives the gates with a seeded random scheduler and an automatic broker.
func (x *Exec) randomRun(r *Random) {
	rng := rand.New(rand.NewSource(r.Seed))
	x.W.AutoBroker = true
	x.W.Broker.IDBase = r.InIDBase
	for _, t := range r.Mute {
		x.W.Broker.Mute[t] = true
	}
	defer func() {
		for _, t := range r.Mute {
			delete(x.W.Broker.Mute, t)
		}
	}()
	faults := r.Faults
	last := ""
	settle := 0
	stalled := map[string]int{} // consecutive deadline expiries given to a reading process
	inbound := append([]Inbound(nil), r.Inbound...)
	hostile := append([]Hostile(nil), r.Hostile...)
	gens := append([]map[string]ProcSpec(nil), r.Gens...)
	for n := 0; n < r.Max; n++ {
		if last != "" {
			g, ended := x.W.S.WaitParked(last, 30*time.Millisecond)
			if r.Plain && (g != nil || ended) {
				x.snapshot() // every goroutine of the client is parked or blocked now
			}
		} else {
			time.Sleep(200 * time.Microsecond)
		}
		parked := x.W.S.AllParked()
		if r.Burst != nil && n >= r.Burst.At {
			// run the burst process alone
			b := r.Burst.P
			r.Burst = nil
			for k := 0; k < 40; k++ {
				g, _ := x.W.S.WaitParked(b, 5*time.Millisecond)
				if g == nil {
					break
				}
				o := sched.Outcome{Kind: "ok"}
				x.emit(sim.Ev{"e": "step", "i": n + 1, "p": b, "at": g.Site, "o": "ok", "n": 0, "burst": true})
				x.W.S.Release(b, o)
			}
			x.pollExchanges()
			x.sampleSignals()
			last = ""
			continue
		}
		var names []string
		for name, g := range parked {
			if r.Burst != nil && name == r.Burst.P {
				continue
			}
			if g.Kind == "read" {
				c := x.W.Conn(g.Info["c"].(int))
				if c != nil && c.Pending() == 0 && c.Readable() == "" {
					continue // blocked: nothing to read
				}
			}
			names = append(names, name)
		}
		// environment moves of the explorer: an inbound publication, a process stop
		if len(inbound) > 0 && x.Client != nil && rng.Intn(8) == 0 {
			if c := x.W.Conn(len(x.W.Conns())); c != nil && !c.IsClosed() && c.Established() && !(inbound[0].After && x.W.Broker.OutPending() != 0) {
				in := inbound[0]
				inbound = inbound[1:]
				x.envStep(n, &Step{Env: "inject", C: c.ID(), In: &in})
				continue
			}
		}
		if len(hostile) > 0 && x.Client != nil && rng.Intn(6) == 0 {
			if c := x.W.Conn(len(x.W.Conns())); c != nil && !c.IsClosed() && c.Established() {
				h := hostile[0]
				hostile = hostile[1:]
				x.envStep(n, &Step{Env: "hostile", C: c.ID(), Host: &h})
				continue
			}
		}
		if r.PQuit > 0 && rng.Float64() < r.PQuit {
			x.mu.Lock()
			var qs []string
			for q := range x.quits {
				qs = append(qs, q)
			}
			sort.Strings(qs)
			who := ""
			if len(qs) > 0 {
				who = qs[rng.Intn(len(qs))]
			}
			x.mu.Unlock()
			if who != "" {
				x.envStep(n, &Step{Env: "quit", P: who})
				last = who
				continue
			}
		}
		atIO := false
		for _, g := range parked {
			if g.Kind == "store" || g.Kind == "write" {
				atIO = true
			}
		}
		if len(gens) > 0 && x.Client != nil && (rng.Float64() < r.PStop || len(names) == 0 || (atIO && rng.Float64() < r.PStopIO)) {
			x.envStep(n, &Step{Env: "stop"})
			for i := range r.Damage {
				x.envStep(n, &r.Damage[i])
			}
			r.Damage = nil
			x.envStep(n, &Step{Env: "adopt", Start: gens[0]})
			gens = gens[1:]
			last = ""
			continue
		}
		if len(names) == 0 {
			// a goroutine woken by the last step may not have reached its gate yet
			if settle < 3 {
				settle++
				time.Sleep(time.Duration(settle) * time.Millisecond)
				last = ""
				n--
				continue
			}
			break
		}
		settle = 0
		sort.Strings(names)
		name := names[rng.Intn(len(names))]
		g := parked[name]
		o := sched.Outcome{Kind: "ok"}
		if faults > 0 {
			switch g.Kind {
			case "write":
				hd, _ := g.Info["head"].(int)
				if rng.Float64() < r.PWrite || (hd>>4 == 5 && rng.Float64() < r.PRecFail) {
					faults--
					o = sched.Outcome{Kind: "err", N: rng.Intn(g.Info["n"].(int))} // never the whole buffer together with an error
					if g.Info["armed"].(bool) && rng.Intn(2) == 0 {
						o.Kind = "timeout"
					}
					if r.Plain && o.Kind == "timeout" && o.N > 1 {
						o.N = 1
					}
				}
			case "dial":
				if rng.Float64() < r.PDial {
					faults--
					o.Kind = "err"
				}
			case "store":
				if rng.Float64() < r.PStore {
					faults--
					o.Kind = "err"
				}
			case "read":
				if rng.Float64() < r.PBreak {
					faults--
					o.Kind = "err"
				} else if g.Info["armed"].(bool) && (rng.Float64() < r.PStall || (stalled[name] > 0 && stalled[name] < 4 && rng.Intn(2) == 0)) {
					o.Kind = "timeout"
				}
			}
		}
		if g.Kind == "read" && o.Kind == "ok" {
			c := x.W.Conn(g.Info["c"].(int))
			if c != nil && c.Pending() == 0 {
				o.Kind = c.Readable()
			} else if !r.Plain && rng.Intn(3) == 0 && c != nil {
				o = sched.Outcome{Kind: "n", N: 1 + rng.Intn(c.Pending())}
			}
		}
		if g.Kind == "dial" && g.Info["cancelled"].(bool) {
			o.Kind = "cancelled"
		}
		if g.Kind == "read" && o.Kind == "timeout" {
			stalled[name]++
		} else if g.Kind == "read" {
			stalled[name] = 0
		}
		x.emit(sim.Ev{"e": "step", "i": n + 1, "p": name, "at": g.Site, "o": o.Kind, "n": o.N})
		x.W.S.Release(name, o)
		last = name
		x.pollExchanges()
		x.sampleSignals()
	}
}

// storeEvent records a completed Persistence operation with the decoded record class.
func (x *Exec) storeEvent(op simstore.Op, found bool) {
	e := sim.Ev{"e": "st", "p": x.W.S.Me(), "op": op.Op, "key": int(op.Key), "err": op.Err, "found": found,
		"kind": "", "tag": 0, "id": 0, "ok": true}
	if (op.Op == "Save" || op.Op == "Load") && !op.Err && len(op.Val) >= 12 {
		body := op.Val[:len(op.Val)-12]
		_, _, derr := mqtt.VerifDecodeValue(append([]byte(nil), op.Val...))
		e["ok"] = derr == nil
		switch {
		case op.Key == 0:
			e["kind"] = "CID"
		default:
			if p, err := codec.Decode(body); err == nil {
				e["id"], e["tag"] = p.ID, p.Tag
				switch p.T {
				case "PUBLISH":
					e["kind"] = "PUB"
				case "PUBREL":
					e["kind"] = "REL"
				case "PUBREC":
					e["kind"] = "MARK"
				default:
					e["kind"] = p.T
				}
			}
		}
	} else if (op.Op == "Save" || op.Op == "Load") && !op.Err && found {
		e["ok"] = false
	}
	x.emit(e)
}
