// Package sched parks the goroutines of one client execution at gates (hook sites of the
// library, I/O calls on harness-owned objects, API entry and return) and releases them one
// step at a time, as a behaviour exported by TLC prescribes. In free mode every gate passes.
package sched

import (
	"bytes"
	"fmt"
	"runtime"
	"strconv"
	"strings"
	"sync"
	"time"
)

// Outcome tells a released goroutine what its I/O call has to report.
type Outcome struct {
	Kind string // "", "ok", "err", "timeout", "closed", "eof", "n", "free", "cancelled"
	N    int
}

// Gate describes where a goroutine is parked.
type Gate struct {
	Proc string
	Kind string // hook, read, write, dial, store, call, ret
	Site string
	Info map[string]any
	Seq  int
}

type proc struct {
	name    string
	goid    int64
	gate    *Gate
	release chan Outcome
	done    bool
	dead    bool // belongs to a stopped incarnation
	anon    bool // spawned by the library; its end is not observed
}

// S is one scheduler; one execution at a time uses it.
type S struct {
	mu     sync.Mutex
	byGoid map[int64]*proc
	byName map[string]*proc
	wake   chan struct{}
	free   bool
	epoch  int
	anon   int
	seq    int
	exempt map[int64]bool
	// OnArrive is called by the arriving goroutine itself before it parks; OnExit when a process ends.
	OnArrive func(*Gate)
	OnExit   func(name string)
	// OnPass is called when a registered process passes a gate in free mode.
	OnPass func(*Gate)
	// IsStale tells whether an unregistered goroutine belongs to a stopped incarnation (it was in transit between two
	// gates when the process stopped): such a goroutine never continues.
	IsStale func(goid int64) bool
	// OnAnon names a library-spawned goroutine at its first gate.
	OnAnon func(site string) string
}

func New() *S {
	return &S{byGoid: map[int64]*proc{}, byName: map[string]*proc{}, wake: make(chan struct{}, 1)}
}

// Goid returns the id of the calling goroutine.
func Goid() int64 {
	var buf [64]byte
	n := runtime.Stack(buf[:], false)
	// "goroutine 123 [running]:"
	b := buf[:n]
	b = b[len("goroutine "):]
	i := bytes.IndexByte(b, ' ')
	id, _ := strconv.ParseInt(string(b[:i]), 10, 64)
	return id
}

// Go starts f as the named process.
func (s *S) Go(name string, f func()) {
	ready := make(chan struct{})
	go func() {
		p := &proc{name: name, goid: Goid(), release: make(chan Outcome, 1)}
		s.mu.Lock()
		s.byGoid[p.goid] = p
		s.byName[name] = p
		s.mu.Unlock()
		close(ready)
		defer func() {
			s.mu.Lock()
			p.done = true
			delete(s.byGoid, p.goid)
			s.mu.Unlock()
			if f := s.OnExit; f != nil {
				f(name)
			}
			s.poke()
		}()
		f()
	}()
	<-ready
}

// Free switches to free mode: every parked goroutine continues and no gate parks any more.
func (s *S) Free() {
	s.mu.Lock()
	s.free = true
	var ps []*proc
	for _, p := range s.byName {
		if p.gate != nil && !p.dead {
			p.gate = nil
			ps = append(ps, p)
		}
	}
	s.mu.Unlock()
	for _, p := range ps {
		p.release <- Outcome{Kind: "free"}
	}
}

// Gated switches free mode off again (only sound while no process is parked or running).
func (s *S) Gated() {
	s.mu.Lock()
	s.free = false
	s.mu.Unlock()
}

func (s *S) IsFree() bool {
	s.mu.Lock()
	defer s.mu.Unlock()
	return s.free
}

// Exempt lets the calling goroutine pass every gate (the executor's own store and network use).
func (s *S) Exempt() {
	id := Goid()
	s.mu.Lock()
	if s.exempt == nil {
		s.exempt = map[int64]bool{}
	}
	s.exempt[id] = true
	s.mu.Unlock()
}

// Me names the calling goroutine ("" when it is not a registered process).
func (s *S) Me() string {
	id := Goid()
	s.mu.Lock()
	defer s.mu.Unlock()
	if p := s.byGoid[id]; p != nil {
		return p.name
	}
	if s.exempt[id] {
		return "env"
	}
	return ""
}

// Done reports whether the named process has ended (or never existed).
func (s *S) Done(name string) bool {
	s.mu.Lock()
	defer s.mu.Unlock()
	p := s.byName[name]
	return p == nil || p.done
}

// Names lists the live processes.
func (s *S) Names() []string {
	s.mu.Lock()
	defer s.mu.Unlock()
	var r []string
	for n, p := range s.byName {
		if !p.done && !p.dead && !p.anon {
			r = append(r, n)
		}
	}
	return r
}

// Arrive parks the calling goroutine at a gate until the executor releases it.
func (s *S) Arrive(kind, site string, info map[string]any) Outcome {
	id := Goid()
	s.mu.Lock()
	if s.exempt[id] {
		s.mu.Unlock()
		return Outcome{Kind: "free"}
	}
	p := s.byGoid[id]
	if p == nil && s.free {
		s.mu.Unlock()
		return Outcome{Kind: "free"}
	}
	if p == nil && s.IsStale != nil && s.IsStale(id) {
		s.mu.Unlock()
		select {}
	}
	if p == nil {
		name := ""
		if s.OnAnon != nil {
			name = s.OnAnon(site)
		}
		if name == "" {
			s.anon++
			name = fmt.Sprintf("anon%d", s.anon)
		}
		// a library goroutine (abort, termCallbacks helper): register at first sight
		if q := s.byName[name]; q != nil && !q.done && !(q.anon && q.gate == nil) {
			// the name is taken by a live process (a library goroutine that is not parked has ended)
			s.anon++
			name = fmt.Sprintf("%s.%d", name, s.anon)
		}
		p = &proc{name: name, goid: id, release: make(chan Outcome, 1), anon: true}
		s.byGoid[id] = p
		s.byName[name] = p
	}
	if p.dead {
		s.mu.Unlock()
		select {} // a goroutine of a stopped incarnation never continues
	}
	if s.free {
		f := s.OnPass
		name := p.name
		s.mu.Unlock()
		if f != nil {
			f(&Gate{Proc: name, Kind: kind, Site: site, Info: info})
		}
		return Outcome{Kind: "free"}
	}
	s.seq++
	g := &Gate{Proc: p.name, Kind: kind, Site: site, Info: info, Seq: s.seq}
	if f := s.OnArrive; f != nil {
		s.mu.Unlock()
		f(g)
		s.mu.Lock()
		if s.free { // switched to free mode meanwhile
			s.mu.Unlock()
			return Outcome{Kind: "free"}
		}
		if p.dead {
			s.mu.Unlock()
			select {}
		}
	}
	p.gate = g
	s.mu.Unlock()
	s.poke()
	o := <-p.release
	s.mu.Lock()
	dead := p.dead
	s.mu.Unlock()
	if dead {
		select {}
	}
	return o
}

// Parked returns the gate the named process is parked at (nil if running, blocked or gone).
func (s *S) Parked(name string) *Gate {
	s.mu.Lock()
	defer s.mu.Unlock()
	if p := s.byName[name]; p != nil && !p.dead {
		return p.gate
	}
	return nil
}

// AllParked lists the parked processes.
func (s *S) AllParked() map[string]*Gate {
	s.mu.Lock()
	defer s.mu.Unlock()
	m := map[string]*Gate{}
	for n, p := range s.byName {
		if p.gate != nil && !p.dead {
			m[n] = p.gate
		}
	}
	return m
}

// Release lets the named process continue with the outcome. It reports false if it is not parked.
func (s *S) Release(name string, o Outcome) bool {
	s.mu.Lock()
	p := s.byName[name]
	ok := p != nil && p.gate != nil && !p.dead
	if ok {
		p.gate = nil // released: not parked any more, even before the goroutine runs
	}
	s.mu.Unlock()
	if !ok {
		return false
	}
	p.release <- o
	return true
}

func (s *S) poke() {
	select {
	case s.wake <- struct{}{}:
	default:
	}
}

// WaitParked waits until the named process is parked at a gate (returns it), has ended
// (nil, true) or the time is up (nil, false).
func (s *S) WaitParked(name string, d time.Duration) (*Gate, bool) {
	deadline := time.Now().Add(d)
	for {
		s.mu.Lock()
		p := s.byName[name]
		var g *Gate
		done := false
		if p != nil && !p.dead {
			g, done = p.gate, p.done
		}
		s.mu.Unlock()
		if g != nil {
			return g, false
		}
		if done {
			return nil, true
		}
		rest := time.Until(deadline)
		if rest <= 0 {
			return nil, false
		}
		if rest > 2*time.Millisecond {
			rest = 2 * time.Millisecond
		}
		t := time.NewTimer(rest)
		select {
		case <-s.wake:
		case <-t.C:
		}
		t.Stop()
	}
}

// KillAll marks every current process as belonging to a stopped incarnation: whatever they
// do next, they park for ever (process stop without killing the test binary).
func (s *S) KillAll(except map[string]bool) {
	s.mu.Lock()
	defer s.mu.Unlock()
	for n, p := range s.byName {
		if except[n] {
			continue
		}
		p.dead = true
		delete(s.byName, n)
	}
}

// AllStacks returns the stacks of all goroutines that have a frame inside pkg, parked at a gate or not.
func AllStacks(pkg string) []string {
	buf := make([]byte, 1<<20)
	n := runtime.Stack(buf, true)
	var res []string
	for _, g := range strings.Split(string(buf[:n]), "\n\n") {
		if strings.Contains(g, pkg) {
			res = append(res, g)
		}
	}
	return res
}

// Stacks returns the stacks of goroutines that have a frame inside pkg, except parked ones.
// StacksAll is Stacks including the goroutines that are passing through a hook (free mode: nobody parks there).
func StacksAll(pkg string) []string {
	buf := make([]byte, 1<<20)
	n := runtime.Stack(buf, true)
	var res []string
	for _, g := range strings.Split(string(buf[:n]), "\n\n") {
		if strings.Contains(g, pkg) {
			res = append(res, g)
		}
	}
	return res
}

func Stacks(pkg string) []string {
	buf := make([]byte, 1<<20)
	n := runtime.Stack(buf, true)
	var res []string
	for _, g := range strings.Split(string(buf[:n]), "\n\n") {
		if strings.Contains(g, pkg) && !strings.Contains(g, "sched.(*S).Arrive") {
			res = append(res, g)
		}
	}
	return res
}
