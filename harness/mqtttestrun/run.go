// Package mqtttestrun executes stimulus cases of spec/MqttTest.tla against the
// real doubles of package mqtttest and records what they do. It decides nothing.
package mqtttestrun

import (
	"bufio"
	"encoding/json"
	"errors"
	"fmt"
	"io"
	"runtime"
	"sync"
	"testing"
	"time"

	"github.com/pascaldekloe/mqtt"
	"github.com/pascaldekloe/mqtt/mqtttest"
)

type transfer struct {
	M string   `json:"m"`
	T string   `json:"t"`
	E string   `json:"e"`
	F []string `json:"f"`
}

type double struct {
	Kind   string            `json:"kind"`
	Want   []json.RawMessage `json:"want"`
	Fix    transfer          `json:"fix"`
	Script []string          `json:"script"`
	ErrFix string            `json:"errfix"`
}

type call struct {
	Quit string   `json:"quit"`
	M    string   `json:"m,omitempty"`
	T    string   `json:"t,omitempty"`
	F    []string `json:"f,omitempty"`
}

type Case struct {
	Dbl     json.RawMessage   `json:"dbl"`
	Calls   []json.RawMessage `json:"calls"`
	Cleanup bool              `json:"cleanup"`
}

type out struct {
	Ret     string   `json:"ret"`
	Fail    string   `json:"fail"`
	Fatal   bool     `json:"fatal"`
	M       string   `json:"m"`
	T       string   `json:"t"`
	Aliased bool     `json:"aliased"`
	Items   []string `json:"items"`
	Closes  bool     `json:"closes"`
}

type event struct {
	Ev   string          `json:"ev"`
	Case int             `json:"case"`
	Dbl  json.RawMessage `json:"dbl,omitempty"`
	Dead bool            `json:"dead"`
	Call json.RawMessage `json:"call,omitempty"`
	Out  *out            `json:"out,omitempty"`
}

var errE = errors.New("E")

func fixErr(s string) error {
	if s == "E" {
		return errE
	}
	return nil
}

// recTB records what a double reports on its testing.TB.
type recTB struct {
	testing.TB // nil; only the overridden methods may be used
	mu         sync.Mutex
	failed     bool
	fatal      bool
	cleanups   []func()
}

func (t *recTB) fail()                        { t.mu.Lock(); t.failed = true; t.mu.Unlock() }
func (t *recTB) Helper()                      {}
func (t *recTB) Name() string                 { return "verif" }
func (t *recTB) Log(args ...any)              {}
func (t *recTB) Logf(f string, args ...any)   {}
func (t *recTB) Error(args ...any)            { t.fail() }
func (t *recTB) Errorf(f string, args ...any) { t.fail() }
func (t *recTB) Fail()                        { t.fail() }
func (t *recTB) Failed() bool                 { t.mu.Lock(); defer t.mu.Unlock(); return t.failed }
func (t *recTB) Cleanup(f func())             { t.mu.Lock(); t.cleanups = append(t.cleanups, f); t.mu.Unlock() }
func (t *recTB) FailNow()                     { t.fail(); t.mu.Lock(); t.fatal = true; t.mu.Unlock(); runtime.Goexit() }
func (t *recTB) Fatal(args ...any)            { t.FailNow() }
func (t *recTB) Fatalf(f string, args ...any) { t.FailNow() }
func (t *recTB) take() (failed, fatal bool) {
	t.mu.Lock()
	defer t.mu.Unlock()
	failed, fatal = t.failed, t.fatal
	t.failed, t.fatal = false, false
	return
}

// guarded runs f in a goroutine of its own; reports a panic value and whether it ended by Goexit.
func guarded(f func()) (panicked any) {
	done := make(chan any, 1)
	go func() {
		finished := false
		defer func() {
			if !finished {
				done <- recover() // nil on Goexit
				return
			}
			done <- nil
		}()
		f()
		finished = true
	}()
	return <-done
}

func classify(err error) string {
	switch {
	case err == nil:
		return "nil"
	case errors.Is(err, mqtt.ErrCanceled):
		return "canceled"
	case err == errE:
		return "E"
	}
	return "other"
}

func quitChan(s string) <-chan struct{} {
	switch s {
	case "open":
		return make(chan struct{})
	case "closed":
		ch := make(chan struct{})
		close(ch)
		return ch
	}
	return nil
}

func yn(b bool) string {
	if b {
		return "y"
	}
	return "n"
}

// Run executes all cases from r and writes the trace to w.
func Run(r io.Reader, w io.Writer, silence time.Duration) error {
	br := bufio.NewReaderSize(r, 1<<20)
	bw := bufio.NewWriterSize(w, 1<<20)
	defer bw.Flush()
	enc := json.NewEncoder(bw)
	dec := json.NewDecoder(br)
	for n := 1; ; n++ {
		var c Case
		if err := dec.Decode(&c); err == io.EOF {
			return nil
		} else if err != nil {
			return err
		}
		if err := runCase(n, &c, enc, silence); err != nil {
			return fmt.Errorf("case %d: %w", n, err)
		}
	}
}

func runCase(n int, c *Case, enc *json.Encoder, silence time.Duration) error {
	var d double
	if err := json.Unmarshal(c.Dbl, &d); err != nil {
		return err
	}
	tb := &recTB{}

	var wantT []mqtttest.Transfer
	var wantF []mqtttest.Filter
	var wantMsgs [][]byte
	for _, raw := range d.Want {
		var t transfer
		if err := json.Unmarshal(raw, &t); err != nil {
			return err
		}
		msg := []byte(t.M)
		wantMsgs = append(wantMsgs, msg)
		wantT = append(wantT, mqtttest.Transfer{Message: msg, Topic: t.T, Err: fixErr(t.E)})
		wantF = append(wantF, mqtttest.Filter{Topics: append([]string(nil), t.F...), Err: fixErr(t.E)})
	}
	fixMsg := []byte(d.Fix.M)

	var pub func(quit <-chan struct{}, message []byte, topic string) error
	var sub func(quit <-chan struct{}, topicFilters ...string) error
	var rd func() (message, topic []byte, err error)
	var exch func(message []byte, topic string) (<-chan error, error)

	p := guarded(func() {
		switch d.Kind {
		case "PublishMock":
			pub = mqtttest.NewPublishMock(tb, wantT...)
		case "ReadSlicesMock":
			rd = mqtttest.NewReadSlicesMock(tb, wantT...)
		case "SubscribeMock":
			sub = mqtttest.NewSubscribeMock(tb, wantF...)
		case "UnsubscribeMock":
			sub = mqtttest.NewUnsubscribeMock(tb, wantF...)
		case "PublishStub":
			pub = mqtttest.NewPublishStub(fixErr(d.Fix.E))
		case "SubscribeStub":
			sub = mqtttest.NewSubscribeStub(fixErr(d.Fix.E))
		case "UnsubscribeStub":
			sub = mqtttest.NewUnsubscribeStub(fixErr(d.Fix.E))
		case "ReadSlicesStub":
			rd = mqtttest.NewReadSlicesStub(mqtttest.Transfer{Message: fixMsg, Topic: d.Fix.T, Err: fixErr(d.Fix.E)})
		case "ExchangeStub":
			var script []error
			for _, s := range d.Script {
				switch s {
				case "E":
					script = append(script, errE)
				case "C":
					script = append(script, fmt.Errorf("scripted: %w", mqtt.ErrClosed))
				case "B0":
					script = append(script, mqtttest.ExchangeBlock{})
				case "Bd":
					script = append(script, mqtttest.ExchangeBlock{Delay: time.Millisecond})
				case "N":
					script = append(script, nil)
				}
			}
			exch = mqtttest.NewPublishExchangeStub(fixErr(d.ErrFix), script...)
		}
	})
	dead := p != nil
	tb.take()
	if err := enc.Encode(event{Ev: "new", Case: n, Dbl: c.Dbl, Dead: dead}); err != nil {
		return err
	}
	if dead {
		return nil
	}

	idx := 0 // expectation index as the harness sees it (for the alias probe only)
	for _, raw := range c.Calls {
		var cl call
		if err := json.Unmarshal(raw, &cl); err != nil {
			return err
		}
		o := out{Items: []string{}}
		var err error
		pv := guarded(func() {
			switch {
			case pub != nil:
				err = pub(quitChan(cl.Quit), []byte(cl.M), cl.T)
				o.Ret = classify(err)
			case sub != nil:
				err = sub(quitChan(cl.Quit), cl.F...)
				o.Ret = classify(err)
			case rd != nil:
				m, t, e := rd()
				o.Ret, o.M, o.T = classify(e), string(m), string(t)
				// alias probe: scribble over the returned slices
				for i := range m {
					m[i] = 'X'
				}
				for i := range t {
					t[i] = 'X'
				}
				if d.Kind == "ReadSlicesStub" {
					o.Aliased = string(fixMsg) != d.Fix.M
				} else if idx < len(wantMsgs) {
					var wt transfer
					json.Unmarshal(d.Want[idx], &wt)
					o.Aliased = string(wantMsgs[idx]) != wt.M
				}
				idx++
			case exch != nil:
				var ch <-chan error
				ch, err = exch([]byte("m1"), "t1")
				o.Ret = classify(err)
				if err == nil {
					timer := time.NewTimer(silence)
				drain:
					for {
						select {
						case e, ok := <-ch:
							if !ok {
								o.Closes = true
								break drain
							}
							switch {
							case errors.Is(e, mqtt.ErrClosed):
								o.Items = append(o.Items, "C")
							case e == errE:
								o.Items = append(o.Items, "E")
							default:
								o.Items = append(o.Items, "other")
							}
							if !timer.Stop() {
								<-timer.C
							}
							timer.Reset(silence)
						case <-timer.C:
							break drain
						}
					}
					timer.Stop()
				}
			}
		})
		failed, fatal := tb.take()
		if pv != nil {
			o.Ret = "panic"
		} else if fatal {
			o.Ret = "none"
		}
		o.Fail, o.Fatal = yn(failed), fatal
		if err := enc.Encode(event{Ev: "call", Case: n, Call: raw, Out: &o}); err != nil {
			return err
		}
	}

	if c.Cleanup {
		o := out{Ret: "none", Items: []string{}}
		pv := guarded(func() {
			for i := len(tb.cleanups) - 1; i >= 0; i-- {
				tb.cleanups[i]()
			}
		})
		failed, fatal := tb.take()
		if pv != nil {
			o.Ret = "panic"
		}
		o.Fail, o.Fatal = yn(failed), fatal
		if err := enc.Encode(event{Ev: "cleanup", Case: n, Out: &o}); err != nil {
			return err
		}
	}
	return nil
}
