#!/usr/bin/env python3
"""Imports confirmed seeded changes from /tmp/wt/<PID>.out into /verif/seeded/<id>/."""
import json, os, shutil, sys, subprocess
head = subprocess.run(["git", "-C", "/repo", "rev-parse", "--short", "HEAD"], capture_output=True, text=True).stdout.strip()
for pid in sys.argv[1:]:
    for k in (1, 2):
        src = "/tmp/wt/%s.out" % pid
        if not os.path.exists("%s/patch%d.diff" % (src, k)):
            continue
        sid = "S-%s-%d" % (pid, k)
        dst = "/verif/seeded/%s" % sid
        os.makedirs(dst, exist_ok=True)
        shutil.copy("%s/patch%d.diff" % (src, k), dst + "/patch.diff")
        shutil.copy("%s/demo%d_test.go" % (src, k), dst + "/demo_test.go")
        notes = open("%s/notes%d.txt" % (src, k)).read()
        meta_path = dst + "/meta.json"
        meta = json.load(open(meta_path)) if os.path.exists(meta_path) else {}
        meta.update({"id": sid, "property": pid, "origin": "fresh sub-agent given only the property text and a scratch worktree",
                     "notes": notes.strip(),
                     "confirmed": {"repo_head": head,
                                   "ran": ["go build ./... && go test -count=1 -timeout 120s ./...  (with patch: pass)",
                                           "go test -run Seeded with patch + demo: FAIL", "go test -run Seeded on the unchanged tree: pass"],
                                   "where": "scratch worktree /tmp/wt/%s (removed afterwards)" % pid}})
        json.dump(meta, open(meta_path, "w"), indent=1)
        print("imported", sid)
