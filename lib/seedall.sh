#!/bin/sh
# usage: seedall.sh [tier] [ids...]   applies every seeded change of /verif/seeded to /repo in turn, runs the check of its
# property, reverts; writes /verif/seeded/RESULTS.tsv (id, property, applies, exit code, first clause reported)
tier=${1:-quick}; [ $# -gt 0 ] && shift
cd /verif || exit 9
ids=${*:-$(ls seeded | grep '^S-')}
out=seeded/RESULTS.tsv
[ $# -eq 0 ] && : > $out
for id in $ids; do
  prop=$(python3 -c "import json;print(json.load(open('seeded/$id/meta.json'))['property'])")
  if ! git -C /repo apply --check /verif/seeded/$id/patch.diff 2>/dev/null; then
    printf '%s\t%s\tno\t-\t-\n' $id $prop >> $out; echo "$id does not apply"; continue
  fi
  git -C /repo apply /verif/seeded/$id/patch.diff
  VERIF_SEED=${VERIF_SEED:-1} timeout 1800 ./check $prop $tier > .run/seed-$id.log 2>&1; rc=$?
  git -C /repo checkout -- .
  clause=$(grep -m1 '^VIOLATION' .run/seed-$id.log | sed -e 's/.*clause=\([A-Za-z0-9_]*\).*/\1/')
  [ -z "$clause" ] && clause=$(grep -m1 -E '^INCONCLUSIVE|^KNOWN' .run/seed-$id.log | cut -c1-60)
  printf '%s\t%s\tyes\t%s\t%s\n' $id $prop $rc "$clause" >> $out
  echo "$id $prop rc=$rc $clause"
done
git -C /repo status --short
