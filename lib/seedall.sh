#!/bin/sh
# usage: seedall.sh [tier] [ids...]
# Runs the check of each seeded change's property against a scratch worktree of /repo with the change applied
# (VERIF_REPO; same result as applying it to /repo itself, without blocking /repo; four at a time), then removes the
# worktree.  The checks run from a snapshot of /verif, so that /verif can be worked on meanwhile.
# Writes /verif/seeded/RESULTS.tsv: id, property, applies, exit code, first clause reported.
tier=${1:-quick}; [ $# -gt 0 ] && shift
snap=/tmp/verif-snap-$$
rm -rf $snap && mkdir -p $snap && rsync -a --exclude .run --exclude out --exclude .git /verif/ $snap/ || exit 9
cd $snap || exit 9
ids=${*:-$(ls seeded | grep '^S-')}
mkdir -p /tmp/wts .run/seed
one() {
  id=$1
  prop=$(python3 -c "import json;print(json.load(open('seeded/$id/meta.json'))['property'])")
  wt=/tmp/wts/$id
  git -C /repo worktree remove --force $wt >/dev/null 2>&1
  git -C /repo worktree add -q --detach $wt HEAD || return
  if ! git -C $wt apply $snap/seeded/$id/patch.diff 2>/dev/null; then
    printf '%s\t%s\tno\t-\t-\n' $id $prop > .run/seed/$id.tsv
  else
    VERIF_REPO=$wt VERIF_EVIDENCE=$snap/.run/seed/ev-$id VERIF_OUT=$snap/.run/seed/out-$id VERIF_SEED=${VERIF_SEED:-1} \
      timeout 2400 ./check $prop $tier > .run/seed/$id.log 2>&1; rc=$?
    clause=$(grep -m1 '^VIOLATION' .run/seed/$id.log | sed -e 's/.*clause=\([A-Za-z0-9_]*\).*/\1/')
    [ -z "$clause" ] && clause=$(grep -m1 -E '^INCONCLUSIVE|^KNOWN' .run/seed/$id.log | cut -c1-70)
    printf '%s\t%s\tyes\t%s\t%s\n' $id $prop $rc "$clause" > .run/seed/$id.tsv
  fi
  git -C /repo worktree remove --force $wt
  rm -rf .run/seed/ev-$id .run/seed/out-$id
  cat .run/seed/$id.tsv
}
n=0
for id in $ids; do
  one $id &
  n=$((n+1))
  if [ $((n % 4)) -eq 0 ]; then wait; fi
done
wait
git -C /repo worktree prune
if [ -f /verif/seeded/RESULTS.tsv ]; then cp /verif/seeded/RESULTS.tsv .run/seed/prev.tsv; else : > .run/seed/prev.tsv; fi
SNAP=$snap python3 - <<'PY'
import glob, os
snap = os.environ['SNAP']
rows = {}
for l in open(snap + '/.run/seed/prev.tsv'):
    f = l.rstrip('\n').split('\t')
    if f and f[0]: rows[f[0]] = l.rstrip('\n')
for p in glob.glob(snap + '/.run/seed/S-*.tsv'):
    l = open(p).read().rstrip('\n')
    if l: rows[l.split('\t')[0]] = l
with open('/verif/seeded/RESULTS.tsv', 'w') as f:
    for k in sorted(rows): f.write(rows[k] + '\n')
PY
mkdir -p /verif/.run/seed && cp .run/seed/*.log /verif/.run/seed/ 2>/dev/null
cd / && rm -rf $snap
