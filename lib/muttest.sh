#!/bin/sh
# usage: muttest.sh <prop> <tier> <file> <python-replace-expr old> <new>   (applies a textual mutation to /repo, runs the check, reverts)
prop=$1; tier=$2; file=$3; old=$4; new=$5
cd /repo || exit 9
python3 - "$file" "$old" "$new" <<'PY'
import sys
f,o,n=sys.argv[1:4]
s=open(f).read()
if s.count(o)<1: print("MUTATION TEXT NOT FOUND"); sys.exit(3)
open(f,'w').write(s.replace(o,n,1))
PY
[ $? = 0 ] || exit 9
GOFLAGS=-mod=mod GOPROXY=off GOSUMDB=off GOTOOLCHAIN=local go build ./... || { git checkout -- .; echo "MUTANT DOES NOT COMPILE"; exit 9; }
cd /verif && ./check $prop $tier | cut -c1-220 | head -${MUTLINES:-4}; echo "rc=$?"
git -C /repo checkout -- .
