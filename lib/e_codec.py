"""C09 - emitted packets: spec/Codec.tla (grammar as request -> packet relation, request classes),
MC_codec (enumeration + export), CodecJudge (judge of decoded packets of the real client)."""
import json
import vlib, pipeline


def run(ctx, replay=None):
    binary = ctx.go_build()
    if replay:
        with open(replay) as f:
            cases = [json.load(f)["case"]]
    else:
        cfg = "MC_codec_q.cfg" if ctx.tier == "quick" else "MC_codec_t.cfg"
        res = pipeline.model_check(ctx, "MC_codec", cfg, workers=4)
        cases = pipeline.parse_cases(res)
        ctx.cov["exhaustive"] = True
        if not cases:
            raise vlib.Inconclusive("TLC exported no cases")
    # big payloads last and spread, so that shards are balanced
    cases.sort(key=lambda c: (c.get("payload", 0), json.dumps(c, sort_keys=True)))
    shards = pipeline.run_worker(ctx, binary, "codec", cases, nshards=vlib.NCPU, timeout=1500)
    results = pipeline.judge(ctx, "CodecJudge", "CodecJudge.cfg", [tp for _, tp in shards])
    seen = {}
    for (scases, tp), r in zip(shards, results):
        badcases = {}
        for clause, cid in r["bad"]:
            badcases.setdefault(cid, []).append(clause)
        rows = None
        for cid, clauses in sorted(badcases.items()):
            case = scases[cid - 1]
            if rows is None:
                rows = vlib.read_ndjson(tp)
            obs = rows[cid - 1]
            for clause in clauses:
                key = (clause, case["op"])
                seen[key] = seen.get(key, 0) + 1
                if seen[key] > 2:
                    continue
                brief = {k: obs[k] for k in ("err", "npk", "pk", "wellformed", "reenc", "content_eq", "saves", "probe", "slots_delta", "n_delta", "note")}
                path = ctx.save_replay("%s-%s-%d.json" % (clause, case["op"], vlib.stable_hash(json.dumps(case, sort_keys=True)) % 100000),
                                       {"case": case, "clause": clause, "observed": brief})
                ctx.violation(clause, "op=%s topic=%s payload=%s filters=%s observed=%s" % (
                    case["op"], case["topic"], case["payload"], case["filters"], json.dumps(brief)[:300]),
                    replay=path, sig={"op": case["op"]})
        ctx.cov["traces_validated_against_impl"] += len(scases) - len(badcases)
    ctx.cov["predicate_failures"] = {"%s/%s" % k: v for k, v in seen.items()}
    ctx.cov["evaluations"] = len(cases)
    ctx.cov["distinct_nontrivial"] = len(cases)
    ctx.cov["rule"] = ("cross product of the field classes of Codec.tla (topic/filter length x string class x payload size across the "
                       "remaining-length boundaries x operation; Config combinations); every case is distinct; all non-trivial")
    ctx.cov["samples"] = cases[:1] + cases[len(cases) // 2:len(cases) // 2 + 1] + cases[-1:]
    ctx.cov["checker_cmd"] = "tlc MC_codec ; verifworker codec ; tlc CodecJudge ; verifworker run ; tlc MonitorRun"
    if not replay:
        # packets emitted under short writes and expiries stay well-formed (clauses C09_*, C08_WholePackets of Monitor.tla)
        import e_client
        saved = dict(ctx.cov)
        behs = e_client.behaviours(ctx, ["req", "out"])[: (240 if ctx.tier == "quick" else 1500)]
        e_client.execute_and_judge(ctx, binary, behs)
        ctx.cov["samples"] = saved["samples"]
    ctx.assumptions += ["the harness decoder (harness/codec) is trusted for byte slicing; field arithmetic is evaluated in TLA+",
                        "the 268435455-byte boundary is exercised in the thorough tier only"]
