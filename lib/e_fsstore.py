"""C19 - FileSystem store: spec/FsStore.tla (Save/Delete as system-call sequences with Kill and errors; TLC checks
the C19 predicates on the design), bound to the real store with strace: the traced call sequence of every operation is
validated against the specification, the process is killed at the entry of every system call and inside the data write
(file-size limit), errors are injected at every call; a fresh process then reports Load/List, and TLC judges
(FsStoreJudge.tla)."""
import concurrent.futures as cf
import json, os, re, resource, shutil, subprocess, tempfile
import vlib, pipeline

KEY, OTHER = 0x8005, 0x8007
CALLS = "openat,write,fsync,close,renameat,renameat2,rename,unlinkat,unlink"


def value(size, seed):
    return bytes(((seed * 131 + i * 7 + i // 251) & 0xff) for i in range(size))


def fnv(b):
    h = 2166136261
    for x in b:
        h = ((h ^ x) * 16777619) & 0xffffffff
    return h


class Scen:
    def __init__(self, ctx, probe, op, had_old, size):
        self.ctx, self.probe, self.op, self.had_old, self.size = ctx, probe, op, had_old, size
        self.old = value(64, 1) if had_old else None
        self.new = value(size, 2)
        self.other = value(40, 3)
        self.name = "%s-%s-%d" % (op, "over" if had_old else "first", size)

    def fresh(self):
        d = tempfile.mkdtemp(prefix="fs-", dir=self.ctx.tmp)
        if self.had_old:
            with open(os.path.join(d, "%05x" % KEY), "wb") as f:
                f.write(self.old)
        with open(os.path.join(d, "%05x" % OTHER), "wb") as f:
            f.write(self.other)
        return d

    def cmd(self, d):
        if self.op == "save":
            return [self.probe, "save", d, str(KEY), str(self.size), "2"]
        return [self.probe, "delete", d, str(KEY)]

    def classify(self, d):
        p = subprocess.run([self.probe, "state", d, str(KEY), str(OTHER)], capture_output=True, text=True, timeout=60)
        st = json.loads(p.stdout)
        lk = st["loads"].get(str(KEY), {"nil": True, "len": 0, "sum": 0, "err": ""})
        if lk["err"]:
            key = "other"
        elif lk["nil"]:
            key = "none"
        elif self.old is not None and (lk["len"], lk["sum"]) == (len(self.old), fnv(self.old)):
            key = "old"
        elif (lk["len"], lk["sum"]) == (len(self.new), fnv(self.new)):
            key = "new"
        else:
            key = "other"
        unloadable = [k for k in st["keys"] if st["loads"][str(k)]["nil"] or st["loads"][str(k)]["err"]]
        lo = st["loads"].get(str(OTHER), {"nil": True})
        other = "intact" if (not lo.get("nil") and (lo["len"], lo["sum"]) == (len(self.other), fnv(self.other)) and OTHER in st["keys"]) else "damaged"
        spoolleft = any(n.endswith(".spool") for n in os.listdir(d))
        return dict(key=key, unloadable=unloadable, loaderr=bool(st["err"]), other=other, spoolleft=spoolleft,
                    old="old" if self.had_old else "none", op=self.op)


def parse_strace(text, d):
    """Returns (calls touching the directory, ordinal of each among the calls of its name)."""
    calls, counts = [], {}
    for line in text.splitlines():
        m = re.match(r"^\d+\s+(\w+)\((.*)\)\s+=\s+(-?\d+)", line)
        if not m:
            continue
        name, args, ret = m.group(1), m.group(2), int(m.group(3))
        counts[name] = counts.get(name, 0) + 1
        if d not in args:
            continue
        def target(path):
            return "spool" if path.endswith(".spool") else ("key" if path.endswith("%05x" % KEY) else "other")
        paths = re.findall(r'"([^"]*)"', args) + re.findall(r"<([^>]*)>", args)
        paths = [p for p in paths if p.startswith(d) and len(p) > len(d) + 1]
        if not paths:
            continue
        call = {"openat": "open", "write": "write", "fsync": "fsync", "close": "close", "renameat": "rename", "renameat2": "rename",
                "rename": "rename", "unlinkat": "unlink", "unlink": "unlink"}.get(name)
        if not call:
            continue
        rec = dict(call=call, sys=name, ord=counts[name], target=target(paths[0]), to="", ok=ret >= 0,
                   creat="O_CREAT" in args, trunc="O_TRUNC" in args, n=ret if call == "write" else 0)
        if call == "rename" and len(paths) > 1:
            rec["to"] = target(paths[-1])
        calls.append(rec)
    return calls


def run(ctx, replay=None):
    ctx.level = "model_checking"
    probe = ctx.go_build("./cmd/fsprobe", name="fsprobe", tags="verif")
    for c in ("save_TRUE", "save_FALSE", "delete_TRUE", "delete_FALSE"):
        pipeline.model_check(ctx, "MC_fsstore", "MC_fsstore_%s.cfg" % c, workers=1)
    sizes = [12, 100, 5000] if ctx.tier == "quick" else [12, 13, 100, 5000, 70000, 2 << 20]
    scens = [Scen(ctx, probe, "save", h, s) for h in (True, False) for s in sizes] + [Scen(ctx, probe, "delete", True, 12), Scen(ctx, probe, "delete", False, 12)]
    rows, jobs = [], []
    case = [0]

    def add(row, scen, detail):
        case[0] += 1
        row["case"] = case[0]
        rows.append(row)
        detail["case"] = case[0]
        detail["scenario"] = scen.name
        details[case[0]] = detail

    details = {}
    base = {}
    for sc in scens:   # baseline trace of the operation
        d = sc.fresh()
        tr = os.path.join(ctx.tmp, "strace-%s.txt" % sc.name)
        p = subprocess.run(["strace", "-f", "-y", "-e", "trace=" + CALLS, "-o", tr] + sc.cmd(d), capture_output=True, text=True, timeout=120)
        if p.returncode != 0:
            raise vlib.Inconclusive("strace run failed: " + p.stderr[-500:])
        calls = parse_strace(open(tr).read(), d)
        if not calls:
            raise vlib.Inconclusive("no system calls of the store found in the strace output")
        base[sc.name] = calls
        add(dict(ev="calls", op=sc.op, calls=[{k: c[k] for k in ("call", "target", "to", "ok", "creat", "trunc")} for c in calls]), sc, {"what": "baseline call sequence"})
        res = json.loads(p.stdout)
        add(dict(ev="after", how="completed", result=res["err"], **sc.classify(d)), sc, {"what": "completed"})

    def inject(sc, spec, how, what, limit=None):
        d = sc.fresh()
        pre = None
        if limit is not None:
            def pre():
                resource.setrlimit(resource.RLIMIT_FSIZE, (limit, limit))
        # (strace tampers only with calls that it traces: "-e trace=none" would switch the injection off)
        # its log goes to the pipe: a file would fall under the file-size limit that some cases set
        p = subprocess.run(["strace", "-f", "-e", "trace=" + CALLS] + (["-e", "inject=" + spec] if spec else []) + sc.cmd(d),
                           capture_output=True, text=True, errors="replace", timeout=120, preexec_fn=pre)
        text = p.stderr
        if spec and how == "killed" and "killed by SIGKILL" not in text:
            raise vlib.Inconclusive("the kill %r did not happen in scenario %s (%s)" % (spec, sc.name, what))
        if spec and how == "error" and "(INJECTED)" not in text:
            raise vlib.Inconclusive("the error %r was not injected in scenario %s (%s)" % (spec, sc.name, what))
        result = ""
        if how != "killed":
            try:
                result = json.loads(p.stdout)["err"]
            except Exception:
                result = "no-output"
        cl = sc.classify(d)
        return dict(ev="after", how=how, result=result, **cl), dict(what=what, inject=spec, limit=limit)

    for sc in scens:
        calls = base[sc.name]
        for i, c in enumerate(calls):
            jobs.append((sc, "%s:signal=SIGKILL:when=%d" % (c["sys"], c["ord"]), "killed", "kill at entry of call %d (%s %s)" % (i + 1, c["call"], c["target"]), None))
            err = {"open": "EACCES", "write": "ENOSPC", "fsync": "EIO", "close": "EIO", "rename": "EXDEV", "unlink": "EACCES"}[c["call"]]
            if c["call"] != "close":
                jobs.append((sc, "%s:error=%s:when=%d" % (c["sys"], err, c["ord"]), "error", "error %s at call %d (%s %s)" % (err, i + 1, c["call"], c["target"]), None))
        if sc.op == "save":
            closes = [c for c in calls if c["call"] == "close"]
            for k in sorted({0, 1, sc.size // 2, sc.size - 1}):
                jobs.append((sc, None, "error", "data write cut short at byte %d (file-size limit)" % k, k))
                if closes:   # stop inside the data write: short write, then kill before anything else happens
                    jobs.append((sc, "%s:signal=SIGKILL:when=%d" % (closes[0]["sys"], closes[0]["ord"]), "killed",
                                 "kill after a write of %d bytes" % k, k))

    with cf.ThreadPoolExecutor(max_workers=vlib.NCPU) as ex:
        outs = list(ex.map(lambda j: inject(*j), jobs))
    for (sc, spec, how, what, limit), (row, detail) in zip(jobs, outs):
        add(row, sc, detail)

    d = tempfile.mkdtemp(prefix="fs-conc-", dir=ctx.tmp)
    p = subprocess.run([probe, "concurrent", d], capture_output=True, text=True, timeout=120)
    add(dict(ev="concurrent", err=json.loads(p.stdout)["err"]), scens[0], {"what": "Save/Load/Delete/List over distinct keys from four goroutines"})

    tp = os.path.join(ctx.tmp, "fs-trace.ndjson")
    vlib.write_ndjson(tp, rows)
    r = pipeline.judge(ctx, "FsStoreJudge", "FsStoreJudge.cfg", [tp])[0]
    badcases = {}
    for clause, cid in r["bad"]:
        badcases.setdefault(cid, []).append(clause)
    seen = {}
    for cid, clauses in sorted(badcases.items()):
        row = next(x for x in rows if x["case"] == cid)
        det = details[cid]
        for clause in clauses:
            key = (clause, det["scenario"].split("-")[0], det["what"].split(" at ")[0][:24])
            seen[key] = seen.get(key, 0) + 1
            if seen[key] > 2:
                continue
            path = ctx.save_replay("%s-%d.json" % (clause, cid), {"clause": clause, "detail": det, "observed": row})
            ctx.violation(clause, "%s: %s -> key=%s result=%r" % (det["scenario"], det["what"], row.get("key"), row.get("result")),
                          replay=path, sig={"scenario": det["scenario"].split("-")[0], "what": det["what"].split(" at ")[0]})
    ctx.cov["traces_validated_against_impl"] = len(rows) - len(badcases)
    ctx.cov["evaluations"] = len(rows)
    ctx.cov["distinct_nontrivial"] = len(jobs)
    # non-vacuity: what the injected cases left behind (every kill and error was confirmed in strace's log, or the check stops)
    after = {}
    for r in rows:
        if r.get("ev") == "after" and r["how"] != "completed":
            k = "%s: key=%s%s" % (r["how"], r["key"], " spool-left" if r["spoolleft"] else "")
            after[k] = after.get(k, 0) + 1
    ctx.cov["injected_outcomes"] = after
    if not any(k.startswith("killed") and "key=new" not in k for k in after):
        raise vlib.Inconclusive("no kill left the old state behind: the injection does not bite")
    ctx.cov["rule"] = ("per scenario (first write / overwrite x value size, delete): the traced system-call sequence; a kill at the entry of every "
                       "system call of the operation; an injected error at every call; the data write cut short at 0, 1, half and size-1 bytes "
                       "with and without a kill right after; every case distinct")
    ctx.cov["samples"] = [details[c] for c in list(details)[:2]] + [rows[0]]
    ctx.cov["checker_cmd"] = "tlc MC_fsstore ; strace fsprobe (trace / inject) ; tlc FsStoreJudge"
    ctx.cov["trusted_base"] += ["strace syscall tracing and injection", "kernel rename/fsync semantics (real power loss is not simulated)"]
    ctx.assumptions += ["a stop inside the data write is produced by RLIMIT_FSIZE (short write) followed by a kill at the next system call"]
