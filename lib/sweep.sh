#!/bin/sh
# usage: sweep.sh <tier> <seed...>   runs every check on the current tree; prints one line per check
tier=$1; shift
for seed in "$@"; do
  for p in C01 C02 C03 C04 C05 C06 C07 C08 C09 C10 C11 C12 C13 C14 C15 C16 C17 C18 C19 C20; do
    s=$(date +%s)
    VERIF_SEED=$seed ./check $p $tier > /tmp/sweep-$p-$seed.log 2>&1; rc=$?
    echo "seed=$seed $p rc=$rc $(( $(date +%s) - s ))s viol=$(grep -c '^VIOLATION' /tmp/sweep-$p-$seed.log) $(grep -m1 -E '^VIOLATION|^INCONCLUSIVE' /tmp/sweep-$p-$seed.log | cut -c1-160)"
  done
done
