#!/usr/bin/env python3
"""Regenerates /verif/MANIFEST.json from the table below (kept in one place so it stays valid)."""
import json, os, subprocess
VERIF = os.path.dirname(os.path.dirname(os.path.abspath(__file__)))
props = [json.loads(l) for l in open(os.path.join(VERIF, "properties.jsonl"))]

CHECKS = {
 "C20": dict(engine="mqtttest", technique="TLC model checking of spec/MqttTest.tla + TLC-exported cases replayed on the real doubles + TLC trace judge (MqttTestTrace.tla)",
   text="The doubles are specified as state machines (MqttTest.tla); TLC checks the C20 predicates on every history of the bounded model, exports every terminal history as stimulus, the Go worker runs them on the real mqtttest doubles with a recording testing.TB, and TLC evaluates the same predicates on every recorded trace (plus step-by-step conformance). Exhaustive small scope is the right level: the doubles are tiny and data-independent beyond equal/different.",
   note="Bounds: expectation lists <= 1 (quick) / <= 2 (thorough), <= 2 / <= 3 invocations, 2 messages x 2 topics, 5 filter lists, quit nil/open/closed. 'Stays open' observed as 150 ms of silence. Duplicate filters in one invocation are not judged.",
   ref="6 (C20)"),
 "C15": dict(engine="rugged", technique="TLC model checking of spec/Rugged.tla (FNV-1a in 16-bit limbs, every single-byte damage and truncation of bounded records) + real encode/decode and AdoptSession/connect on damaged real records judged by TLC (RuggedJudge.tla)",
   text="Rugged.tla specifies the record layout and the store key as a state machine (Save, Damage one byte, Truncate); TLC proves by enumeration on bounded records that decode inverts encode and that every single-byte alteration (all 255 values at every position) and every truncation below 12 bytes is rejected. The real encodeValue/decodeValue (through verif-tag accessors) are run on packets from 0 bytes to multi-buffer size with sequence numbers 0, 2^32, 2^64-1; every position x every value of real records is altered and decoded, and the values a real client saved are altered and given to AdoptSession and to a connecting client; TLC compares the layouts with Rugged!Encode and judges the observations.",
   note="Bounded model: packets <= 2 (quick) / 3 (thorough) bytes over a 3/4-letter alphabet, 5 sequence numbers, all 256 byte values. Real records: sizes 12..1012 bytes exhaustively, 4 KiB / 70 KiB with seeded values. Multi-byte damage measured, not claimed.",
   ref="6 (C15)"),
 "C09": dict(engine="codec", technique="TLA+ grammar model spec/Codec.tla: TLC enumerates the request-class cross product and computes the expected packet; the real client's bytes are decoded by an independent decoder and judged by TLC (CodecJudge.tla)",
   text="Codec.tla gives the MQTT 3.1.1 grammar of every packet the client emits as a relation request -> structured packet (remaining-length arithmetic, flags, field order, identifier spaces, string validity classes, size limits). TLC enumerates the cross product of field classes (string class x length boundary x payload size across every remaining-length width x operation x Config combination), the Go worker instantiates each class with concrete bytes and calls the real method on a fresh online client, an independent decoder turns the emitted bytes into a structured record, and TLC compares it with Codec!Expect and checks denial <=> invalid and that a denial leaves no trace (nothing written, nothing saved, no slot or identifier consumed, a following publish at Max=1 still accepted).",
   note="Trusted: harness/codec decoder for byte slicing (re-encoding must reproduce the bytes). 13.7k (quick) / 54k (thorough) request classes; the 256 MiB boundary for three operations.",
   ref="6 (C09)"),
}

CHECKS["C06"] = dict(engine="framing_in", technique="TLA+ specification spec/Framing.tla enumerates streams x cuts x progress-making pauses (TLC); every case is read by the real client through a scripted connection; TLC judges the recorded traces with spec/Monitor.tla",
   text="Framing.tla defines, for a read buffer of B bytes, the streams, the ways of cutting them into reads and which deadline expiries are progress-making (at least one byte between the arming of the deadline and the expiry); TLC enumerates all cases of the bounded instance (cuts next to every field and buffer boundary, all one-byte reads, every subset of legal pauses). The Go worker lets the real client read each fragmentation (the harness connection hands out exactly the scripted byte counts and expiries, CONNACK coalesced with what follows), with BigMessages read or skipped. TLC judges each trace: the sequence of returned messages (length and FNV-1a of the content, BigMessage size) equals the PUBLISH packets sent, in order, and the connection was not reset. The random schedules of the client engine add messages beyond the buffer under faults.",
   note="B = 16 (the smallest buffer bufio allows); 11 (quick) / 14 (thorough) streams of up to 3 packets; <= 2 / 3 cuts; topics of one byte. Pauses inside CONNACK or inside a packet header are not judged (the client documents one deadline for the 4-byte CONNACK).",
   ref="6 (C06)")

CHECKS["C19"] = dict(engine="fsstore", technique="TLC model checking of spec/FsStore.tla (system-call sequences with Kill and errors) + strace-traced call sequences of the real FileSystem store validated against it + kill / error injection at every system call judged by TLC (FsStoreJudge.tla)",
   text="FsStore.tla specifies Save and Delete as sequences of system calls over a directory with a Kill between any two calls and inside the data write, and errors at any call; TLC checks old-or-new, list-implies-loadable, flushed-before-visible and failed-save-keeps-old in every state. Binding: the real store (cmd/fsprobe, built from /repo) runs each operation under strace; the observed call sequence must be a behaviour of the specification (spool file created with O_CREAT|O_TRUNC, data, fsync before close and rename, never a write to the key in place); then the process is killed at the entry of each of those calls (strace signal injection), the data write is cut short with a file-size limit (with and without a kill right after), and errors (EACCES, ENOSPC, EIO, EXDEV) are injected at each call; a fresh process reports Load and List, and TLC judges the outcome against the C19 predicates. Four goroutines exercise distinct keys concurrently.",
   note="Trusted: strace tracing/injection, the kernel's rename and fsync semantics; real power loss is not simulated. Sizes 12..5000 bytes (quick), up to 2 MiB (thorough). Concurrent Save of the same key is outside the property.",
   ref="6 (C19)")

CLIENT_TEXT = ("spec/MqttClient.tla specifies the client at the grain of its blocking points: one move per stretch of code between two gates "
  "(hook sites of the verif build tag placed after channel operations, I/O calls on the application's net.Conn / Dialer / Persistence, API entries), "
  "the semaphores as variables holding what the channels hold; read routine with connect, resend, acknowledgement flush, dispatch, toOffline and "
  "termCallbacks, persisted publishers, requests through lockWrite (Publish, Ping, Subscribe, Unsubscribe, quit during the call), Close and Disconnect, "
  "the abort goroutine; environment: reference broker with session take-over and retransmission, inbound publications with identifier reuse, fault budgets "
  "(failed dial, connection reset, write expiry with and without progress, read and store errors), process stops followed by AdoptSession (transcribed), "
  "records damaged while down, runs that start from a seeded Persistence (also across the 14-bit identifier wrap). TLC checks the design-level invariants, "
  "one action property and (small instances, under fairness) the temporal properties on bounded instances, exhaustively, and exports the stimulus of its "
  "transitions. Binding in both directions: (1) the Go harness replays every exported behaviour on the real code built from /repo, parked at the same gates, "
  "and compares gate and state projection (VerifSnapshot against Proj) after every step - zero divergences and zero mismatches on this tree apart from Go's "
  "random choice between ready select cases; (2) seeded schedules the explorer chose on its own are validated step by step against the specification's "
  "actions (spec/ClientTrace.tla) - zero rejections. The seeded explorer additionally covers what the bounded model does not hold (partial reads, read "
  "expiries, hostile input, messages beyond the read buffer, limits outside 1..16384, long histories). Every recorded trace is judged by TLC with "
  "spec/Monitor.tla: the property's clauses are TLA+ predicates over an observation state fed by observable events only; only a clause that is false on a "
  "trace of the real code is a violation. ")
CLIENT_NOTE = ("Trusted: harness (sim net/broker/store, codec, gate scheduler), TLC. Bounds of the instances: 1-3 application goroutines with 1-3 operations, "
  "queue limits 1-5, 1-2 faults per kind, 1-2 stops, up to 2 damaged records, 2-4 connections (DESIGN.md 4.1 lists every instance with its size). Explorer: "
  "720 (quick) / 3600 (thorough) executions per run plus 30 / 300 per instance for the code-to-model validation, seeded by VERIF_SEED. 'Never returns' is "
  "observed as no event for a quiet period in the healed world with the blocked frame inside the package. Go's select among ready cases cannot be steered: "
  "a replay runs eight copies.")
INST = {"C01": "one, q2, live_one, live_f4", "C02": "restart, restart2, seedwrap, seedrels, seedwrapb0", "C03": "q2, seedwrap0, seedwrapb0, live_f4", "C04": "in22, in, inrestart",
        "C05": "two, seedwrap0", "C07": "in, in22, inrestart", "C08": "mixreq, two, q12w2", "C10": "one, mixreq, inw, live_one, live_f4",
        "C11": "req, pings, quit, unsub, devF25 (+ req_b), live_req", "C12": "close, reqclose, disc, discreq (+ close_b), live_close, live_disc",
        "C13": "in", "C14": "req, close, quit, unsub", "C16": "damage, damage3, damage5, seedmix, seedwrap, seedwrapb (+ damage24)", "C17": "max1, one", "C18": "one, req"}
for pid, fam in [("C01","out,restart,wrap"),("C02","restart,wrap"),("C03","out,restart"),("C04","in,inrestart,inbig"),("C05","out,restart,wrap"),("C07","in"),
                 ("C08","req,out"),("C14","req,close,out,connect"),("C10","connect,req,out,in"),("C11","req,close,connect,hostile"),("C12","close"),
                 ("C13","hostile,in"),("C16","damage,damagein"),("C17","out,restart,req,wrap"),("C18","connect,out")]:
    CHECKS[pid] = dict(engine="client", level="model_checking",
        technique="TLC model checking of spec/MqttClient.tla (bounded instances: " + INST[pid] + ") + replay of the TLC-exported behaviours on the real client with "
                  "gate and state-projection conformance + validation of explorer schedules against the specification's actions (spec/ClientTrace.tla) + "
                  "gate-scheduled seeded executions with faults; every recorded trace judged by TLC with the observation monitor spec/Monitor.tla",
        text=CLIENT_TEXT + "Explorer families for this property: " + fam + ".", note=CLIENT_NOTE, ref="4, 5, 6 (%s)" % pid)

def main():
    hooks = subprocess.run(["git", "-C", "/repo", "log", "--format=%h %s"], capture_output=True, text=True).stdout.splitlines()
    hook_commits = [l.split()[0] for l in hooks if l.split(" ", 1)[1].startswith("verif:")]
    m = {"version": 1,
         "setup_cmd": "./check setup",
         "hooks": {"guard": "verif",
                   "enable": "go build -tags verif (the harness module /verif/harness replaces github.com/pascaldekloe/mqtt with /repo)",
                   "baseline_off_cmd": "cd /repo && GOFLAGS=-mod=mod GOPROXY=off GOSUMDB=off GOTOOLCHAIN=local go test -vet=off -count=1 -timeout 25m ./...",
                   "source_commits": hook_commits, "add_only": True},
         "engines": [], "checks": [], "not_applicable": [],
         "notes": "Approach, verdict policy, findings and limits: DESIGN.md. Known findings: known_findings.json."}
    engines = {}
    for p in props:
        pid = p["id"]
        c = CHECKS.get(pid)
        if not c:
            m["not_applicable"].append({"property_id": pid, "reason": "check not finished yet (DESIGN.md section 10 lists the build order); not claimed rather than claimed with a weaker technique"})
            continue
        engines.setdefault(c["engine"], []).append(pid)
        m["checks"].append({
            "property_id": pid,
            "quick_cmd": "./check %s quick" % pid,
            "thorough_cmd": "./check %s thorough" % pid,
            "evidence_file": "/verif/evidence/%s.json" % pid,
            "replay_cmd_template": "./check %s --replay {path}" % pid,
            "engine": c["engine"],
            "level_claimed": {"category": c.get("level", "model_checking"), "text": c["text"], "design_ref": c["ref"]},
            "level_note": c["note"],
            "technique": c["technique"]})
    for e, ps in engines.items():
        m["engines"].append({"name": e, "path": "/verif/lib/e_%s.py + /verif/spec + /verif/harness" % e, "serves_properties": ps,
                             "kind_free_text": "TLA+ specification checked by TLC; TLC-exported stimulus replayed on the real code by a Go worker; recorded traces judged by TLC"})
    json.dump(m, open(os.path.join(VERIF, "MANIFEST.json"), "w"), indent=1)

if __name__ == "__main__":
    main()
