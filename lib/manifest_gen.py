#!/usr/bin/env python3
"""Regenerates /verif/MANIFEST.json from the table below (kept in one place so it stays valid)."""
import json, os, subprocess
VERIF = os.path.dirname(os.path.dirname(os.path.abspath(__file__)))
props = [json.loads(l) for l in open(os.path.join(VERIF, "properties.jsonl"))]

CHECKS = {
 "C20": dict(engine="mqtttest", technique="TLC model checking of spec/MqttTest.tla + TLC-exported cases replayed on the real doubles + TLC trace judge (MqttTestTrace.tla)",
   text="The doubles are specified as state machines (MqttTest.tla); TLC checks the C20 predicates on every history of the bounded model, exports every terminal history as stimulus, the Go worker runs them on the real mqtttest doubles with a recording testing.TB, and TLC evaluates the same predicates on every recorded trace (plus step-by-step conformance). Exhaustive small scope is the right level: the doubles are tiny and data-independent beyond equal/different.",
   note="Bounds: expectation lists <= 1 (quick) / <= 2 (thorough), <= 2 / <= 3 invocations, 2 messages x 2 topics, 5 filter lists, quit nil/open/closed. 'Stays open' observed as 150 ms of silence. Duplicate filters in one invocation are not judged.",
   ref="6 (C20)"),
}

def main():
    hooks = subprocess.run(["git", "-C", "/repo", "log", "--format=%h %s"], capture_output=True, text=True).stdout.splitlines()
    hook_commits = [l.split()[0] for l in hooks if l.split(" ", 1)[1].startswith("verif:")]
    m = {"version": 1,
         "setup_cmd": "./check setup",
         "hooks": {"guard": "verif",
                   "enable": "go build -tags verif (the harness module /verif/harness replaces github.com/pascaldekloe/mqtt with /repo)",
                   "baseline_off_cmd": "cd /repo && GOFLAGS=-mod=mod GOPROXY=off GOSUMDB=off GOTOOLCHAIN=local go test -vet=off -count=1 -timeout 25m ./...",
                   "source_commits": hook_commits, "add_only": True},
         "engines": [], "checks": [], "not_applicable": [],
         "notes": "Approach, verdict policy, findings and limits: DESIGN.md. Known findings: known_findings.json."}
    engines = {}
    for p in props:
        pid = p["id"]
        c = CHECKS.get(pid)
        if not c:
            m["not_applicable"].append({"property_id": pid, "reason": "check not finished yet (DESIGN.md section 10 lists the build order); not claimed rather than claimed with a weaker technique"})
            continue
        engines.setdefault(c["engine"], []).append(pid)
        m["checks"].append({
            "property_id": pid,
            "quick_cmd": "./check %s quick" % pid,
            "thorough_cmd": "./check %s thorough" % pid,
            "evidence_file": "/verif/evidence/%s.json" % pid,
            "replay_cmd_template": "./check %s --replay {path}" % pid,
            "engine": c["engine"],
            "level_claimed": {"category": c.get("level", "model_checking"), "text": c["text"], "design_ref": c["ref"]},
            "level_note": c["note"],
            "technique": c["technique"]})
    for e, ps in engines.items():
        m["engines"].append({"name": e, "path": "/verif/lib/e_%s.py + /verif/spec + /verif/harness" % e, "serves_properties": ps,
                             "kind_free_text": "TLA+ specification checked by TLC; TLC-exported stimulus replayed on the real code by a Go worker; recorded traces judged by TLC"})
    json.dump(m, open(os.path.join(VERIF, "MANIFEST.json"), "w"), indent=1)

if __name__ == "__main__":
    main()
