"""C06 - inbound framing: spec/Framing.tla enumerates streams x cuts x progress-making pauses for a small read
buffer; the real client reads each fragmentation (scripted Read sizes on the harness connection); Monitor.tla judges
that exactly the PUBLISH packets sent are returned, in order, byte-exact (FNV of the content), without a reset.
Plus the seeded random schedules of the client engine with messages beyond the read buffer."""
import json
import vlib, pipeline, e_client


def run(ctx, replay=None):
    binary = ctx.go_build()
    if replay:
        with open(replay) as f:
            behs = [json.load(f)["behaviour"]]
    else:
        cfg = "MC_framing_q.cfg" if ctx.tier == "quick" else "MC_framing_t.cfg"
        res = ctx.tlc("MC_framing", cfg, workers=1, timeout=1500)
        if res.rc != 0 or "NCASES" not in res.out:
            raise vlib.Inconclusive("Framing enumeration failed: %s" % (res.error or res.out[-800:]))
        cases = pipeline.parse_cases(res)
        ctx.cov["states"] = max(ctx.cov["states"], len(cases))       # enumeration of a constant-level specification
        ctx.cov["transitions"] = max(ctx.cov["transitions"], len(cases))
        behs = []
        for i, c in enumerate(cases):
            c["big"] = "read" if (i + ctx.seed) % 2 == 0 else "skip"
            behs.append({"id": "frame-%d" % i, "cfg": {}, "procs": {}, "frame": c})
        ctx.cov["exhaustive"] = True
        ctx.cov["fragmentations"] = len(cases)
        # and the exploration with large messages under faults
        behs += [b for b in e_client.behaviours(ctx, ["in"]) if b["cfg"].get("readbuf")][: (150 if ctx.tier == "quick" else 1200)]
    e_client.execute_and_judge(ctx, binary, behs)
    ctx.level = "model_checking"
    ctx.cov["rule"] = ("every case of spec/Framing.tla: stream x (up to 2 / 3 cuts next to field and buffer boundaries, plus all one-byte reads) x "
                       "every subset of cuts inside a packet paused by a deadline expiry; read buffer 16 bytes; BigMessage read or skipped")
    ctx.cov["checker_cmd"] = "tlc MC_framing (enumeration) ; verifworker run (frame mode) ; tlc MonitorRun"
    ctx.assumptions += ["content equality is judged by length and FNV-1a of the payload",
                        "topics of one byte; topic lengths up to 65535 are covered by C09's request classes and C13's alphabet, not here"]
