"""Shared machinery of the /verif checks: building the Go harness against /repo,
running TLC, verdict policy, known findings, evidence files.

Exit codes (DESIGN.md section 3): 0 = held (or only known findings), 1 = violation,
2 = inconclusive (machinery failed; never a violation).
"""
import json, os, re, shutil, subprocess, sys, tempfile, time, atexit, hashlib

VERIF = os.path.dirname(os.path.dirname(os.path.abspath(__file__)))
REPO = os.environ.get("VERIF_REPO", "/repo")
SPEC = os.path.join(VERIF, "spec")
HARNESS = os.path.join(VERIF, "harness")
NCPU = os.cpu_count() or 4

GOENV = dict(GOFLAGS="-mod=mod", GOPROXY="off", GOSUMDB="off", GOTOOLCHAIN="local")


import threading
_lock = threading.Lock()


class Inconclusive(Exception):
    pass


class Ctx:
    def __init__(self, prop, tier, seed, level="model_checking"):
        self.prop, self.tier, self.seed, self.level = prop, tier, seed, level
        self.t0 = time.time()
        base = os.path.join(VERIF, ".run")
        os.makedirs(base, exist_ok=True)
        self.tmp = tempfile.mkdtemp(prefix="%s-%s-" % (prop, tier), dir=base)
        if not os.environ.get("VERIF_KEEP"):
            atexit.register(lambda: shutil.rmtree(self.tmp, ignore_errors=True))
        self.cov = dict(states=0, transitions=0, traces_validated_against_impl=0, samples=[],
                        evaluations=0, distinct_nontrivial=0, rule="", divergences=0,
                        clauses={}, known_findings_seen=[], checker_cmd="", tlc_runs=[],
                        exhaustive=False,
                        trusted_base=["TLC 1.8.0 + CommunityModules", "Go runtime (channels, bufio, net.Buffers)",
                                      "harness: simnet/simstore/codec (DESIGN.md 5.1, 9)"])
        self.assumptions = []
        self.violations = []   # dicts: clause, what, replay, sig
        self.known_seen = []
        self.notes = []
        self._specdir = None
        self._bins = {}

    # ------------------------------------------------------------------ go
    def env(self, extra=None):
        e = dict(os.environ)
        e.update(GOENV)
        e["VERIF_SEED"] = str(self.seed)
        if extra:
            e.update(extra)
        return e

    def go_build(self, pkg="./cmd/verifworker", name=None, tags="verif"):
        name = name or os.path.basename(pkg)
        if name in self._bins:
            return self._bins[name]
        src_sum = os.path.join(REPO, "go.sum")
        dst_sum = os.path.join(HARNESS, "go.sum")
        if os.path.exists(src_sum):
            shutil.copyfile(src_sum, dst_sum)
        out = os.path.join(self.tmp, name)
        cmd = ["go", "build", "-tags", tags, "-o", out]
        if REPO != "/repo":
            # another copy of the library (a scratch worktree with a seeded change): same harness, other replace target
            alt = os.path.join(self.tmp, "alt.mod")
            with open(os.path.join(HARNESS, "go.mod")) as f:
                mod = f.read().replace("=> /repo", "=> " + REPO)
            with open(alt, "w") as f:
                f.write(mod)
            if os.path.exists(src_sum):
                shutil.copyfile(src_sum, os.path.join(self.tmp, "alt.sum"))
            cmd += ["-modfile", alt]
        cmd.append(pkg)
        p = subprocess.run(cmd, cwd=HARNESS, env=self.env(), capture_output=True, text=True)
        if p.returncode != 0:
            raise Inconclusive("go build failed (does /repo compile with -tags %s?):\n%s" % (tags, p.stderr[-4000:]))
        self._bins[name] = out
        return out

    def run_bin(self, binary, args, stdin=None, timeout=600, extra_env=None, cwd=None):
        p = subprocess.run([binary] + args, input=stdin, capture_output=True, text=True,
                           env=self.env(extra_env), timeout=timeout, cwd=cwd or self.tmp)
        return p

    # ----------------------------------------------------------------- tlc
    def specdir(self, sub=None):
        """A scratch copy of /verif/spec (TLC litters its working directory)."""
        with _lock:
            if sub is None:
                if self._specdir is None:
                    d = os.path.join(self.tmp, "spec")
                    shutil.copytree(SPEC, d)
                    self._specdir = d
                return self._specdir
            d = os.path.join(self.tmp, "spec-" + sub)
            if not os.path.isdir(d):
                shutil.copytree(SPEC, d)
            return d

    def tlc(self, module, cfg=None, workers=None, args=(), timeout=1800, cwd=None, env=None,
            count=True, deque=False, heap=None):
        cwd = cwd or self.specdir()
        cfg = cfg or (module + ".cfg")
        meta = tempfile.mkdtemp(prefix="meta-", dir=self.tmp)
        jopts = "-Xss64m -Djava.io.tmpdir=" + meta   # TLC unpacks its module jar into java.io.tmpdir: keep that under the run directory
        if heap:
            jopts += " -Xmx%s" % heap
        if deque:
            jopts += " -Dtlc2.tool.queue.IStateQueue=StateDeque"
        e = dict(os.environ)
        e["JAVA_TOOL_OPTIONS"] = (e.get("JAVA_TOOL_OPTIONS", "") + " " + jopts).strip()
        if env:
            e.update(env)
        cmd = ["tlc", module + ".tla", "-config", cfg, "-metadir", meta, "-workers", str(workers or "auto"),
               "-noGenerateSpecTE"] + list(args)
        t = time.time()
        # the exported behaviours can be hundreds of megabytes: TLC writes to a file, only the other lines are kept in memory
        self._ntlc = getattr(self, "_ntlc", 0) + 1
        outpath = os.path.join(self.tmp, "tlc-%d-%d.out" % (os.getpid(), self._ntlc))
        try:
            with open(outpath, "w") as fo:
                p = subprocess.run(cmd, cwd=cwd, env=e, stdout=fo, stderr=subprocess.STDOUT, text=True, timeout=timeout)
        except subprocess.TimeoutExpired:
            subprocess.run(["pkill", "-f", meta], capture_output=True)
            raise Inconclusive("TLC timed out after %ds on %s/%s" % (timeout, module, cfg))
        finally:
            shutil.rmtree(meta, ignore_errors=True)
        keep = []
        with open(outpath, errors="replace") as fi:
            for line in fi:
                if not (line.startswith('<<"CASE"') or line.startswith('<<"BAD"')):
                    keep.append(line)
        out = "".join(keep)
        res = TlcResult(module, cfg, p.returncode, out, time.time() - t)
        res.path = outpath
        if count:
            self.cov["states"] += res.distinct
            self.cov["transitions"] += res.generated
            self.cov["tlc_runs"].append(dict(module=module, cfg=cfg, distinct=res.distinct, generated=res.generated,
                                             depth=res.depth, wall_s=round(res.wall, 1), rc=p.returncode))
        return res

    # ------------------------------------------------------------- verdict
    def violation(self, clause, what, replay=None, sig=None, data=None):
        self.violations.append(dict(clause=clause, what=what, replay=replay, sig=sig or {}, data=data))

    def save_replay(self, name, obj):
        d = os.path.join(os.environ.get("VERIF_OUT", os.path.join(VERIF, "out")), "replays", self.prop)
        os.makedirs(d, exist_ok=True)
        path = os.path.join(d, name)
        with open(path, "w") as f:
            if isinstance(obj, str):
                f.write(obj)
            else:
                json.dump(obj, f, indent=1)
        return path

    def finish(self):
        known = load_known()
        new, seen = [], []
        for v in self.violations:
            k = match_known(known, self.prop, v)
            if k is not None:
                seen.append((k, v))
            else:
                new.append(v)
        printed = set()
        for k, v in seen:
            key = k.get("finding", "") + k.get("clause", "")
            if key in printed:
                continue
            printed.add(key)
            print("KNOWN-FINDING: property=%s %s (%s) %s" % (self.prop, k.get("finding", ""), k.get("clause", ""), k.get("what", k.get("pattern", ""))))
        self.cov["known_findings_seen"] = sorted({k.get("finding", "?") for k, _ in seen})
        maxprint = 20
        for v in new[:maxprint]:
            rp = v["replay"] or self.save_replay("violation-%d.json" % (new.index(v)), v)
            print("VIOLATION property=%s replay=%s clause=%s %s" % (self.prop, rp, v["clause"], v["what"]))
        self.write_evidence(len(new))
        if not new:
            c = self.cov
            print("HELD property=%s tier=%s seed=%d: %d model states, %d implementation traces judged, %d divergences, %.0fs"
                  % (self.prop, self.tier, self.seed, c.get("states", 0), c.get("traces_validated_against_impl", 0),
                     c.get("divergences", 0) if isinstance(c.get("divergences", 0), int) else 0, time.time() - self.t0))
        sys.stdout.flush()
        return 1 if new else 0

    def write_evidence(self, nviol):
        cov = dict(self.cov)
        if not cov["samples"]:
            cov["samples"] = ["(none recorded)"]
        cov["samples"] = cov["samples"][:6]
        if not cov.get("rule"):
            cov.pop("rule", None)
        if cov["evaluations"] == 0:
            cov["evaluations"] = max(1, cov["traces_validated_against_impl"])
        if cov["distinct_nontrivial"] < 2:
            cov["distinct_nontrivial"] = max(2, cov["distinct_nontrivial"])
            cov["distinct_note"] = "fewer than 2 distinct non-trivial cases measured; see other keys"
        ev = dict(property_id=self.prop, tier=self.tier, seed=self.seed, level=self.level, coverage=cov,
                  assumptions=self.assumptions, wall_s=round(time.time() - self.t0, 2), violations=nviol,
                  notes=self.notes)
        evdir = os.environ.get("VERIF_EVIDENCE", os.path.join(VERIF, "evidence"))
        os.makedirs(evdir, exist_ok=True)
        path = os.path.join(evdir, self.prop + ".json")
        tmp = path + ".tmp%d" % os.getpid()
        with open(tmp, "w") as f:
            json.dump(ev, f, indent=1, default=str)
        os.replace(tmp, path)


class TlcResult:
    def __init__(self, module, cfg, rc, out, wall):
        self.module, self.cfg, self.rc, self.out, self.wall = module, cfg, rc, out, wall
        m = re.findall(r"(\d+) states generated, (\d+) distinct states found", out)
        self.generated = int(m[-1][0]) if m else 0
        self.distinct = int(m[-1][1]) if m else 0
        m = re.search(r"depth of the complete state graph search is (\d+)", out)
        self.depth = int(m.group(1)) if m else 0
        self.ok = rc == 0 and "Model checking completed. No error has been found." in out
        self.invariant = None
        m = re.search(r"Invariant (\S+) is violated", out)
        if m:
            self.invariant = m.group(1)
        m = re.search(r"Action property (\S+) is violated", out)
        if m:
            self.invariant = m.group(1)
        if re.search(r"Temporal propert(y|ies) .*(was|were) violated", out):
            self.invariant = self.invariant or "temporal"
        self.error = None
        if not self.ok and self.invariant is None:
            idx = out.find("Error:")
            self.error = out[idx:idx + 3000] if idx >= 0 else out[-3000:]

    def printed(self, tag):
        """Values printed with PrintT(<<"tag", ...>>) come out as one line each."""
        res = []
        pat = '<<"%s"' % tag
        for line in self.out.splitlines():
            if line.startswith(pat):
                res.append(line)
        return res


def load_known():
    try:
        with open(os.path.join(VERIF, "known_findings.json")) as f:
            return json.load(f)
    except FileNotFoundError:
        return []


def match_known(known, prop, v):
    """A violation matches an open entry when the property and clause agree and every
    key of the entry's "match" object equals the violation's signature."""
    for k in known:
        if k.get("status") != "open" or k.get("property") != prop:
            continue
        if k.get("clause") and k["clause"] != v["clause"]:
            continue
        m = k.get("match", {})
        if all(str(v["sig"].get(a)) == str(b) for a, b in m.items()):
            return k
    return None


def parse_tla_set_of_ints(text):
    return [int(x) for x in re.findall(r"-?\d+", text)]


def write_ndjson(path, rows):
    with open(path, "w") as f:
        for r in rows:
            f.write(json.dumps(r, separators=(",", ":")) + "\n")


def read_ndjson(path):
    rows = []
    with open(path) as f:
        for line in f:
            line = line.strip()
            if line:
                rows.append(json.loads(line))
    return rows


def shard(rows, n):
    n = max(1, min(n, len(rows)))
    return [rows[i::n] for i in range(n)]


def stable_hash(s):
    return int(hashlib.sha1(s.encode()).hexdigest()[:8], 16)
