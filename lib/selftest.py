"""./check selftest — shows that the binding binds (not a property check).

 1. The specification regenerates known findings: with a DEV_ switch on, TLC reports the violation.
 2. Gate conformance: a behaviour whose expected gate is altered is reported as a divergence.
 3. State conformance: a behaviour whose expected projection is altered is reported as a state mismatch.
 4. The monitor rejects corrupted traces: recorded traces with the broker's acknowledgements removed, with a
    delivered message altered, with a PUBLISH repeated, fail the clause that speaks about it.
Exit 0 when every expectation is met, 1 otherwise, 2 when the machinery failed.
"""
import copy, json, os, random, sys
import vlib, pipeline, e_client


def tlc_dev(ctx, name, cfg_body, expect):
    cfgname = "selftest_%s.cfg" % name
    with open(os.path.join(ctx.specdir(), cfgname), "w") as f:
        f.write(cfg_body)
    res = ctx.tlc("MC_client", cfgname, workers=8, timeout=900)
    got = res.invariant
    ok = (got == expect) if expect != "temporal" else (got == "temporal")
    print("%s  DEV %-18s TLC reports %s (expected %s)" % ("ok  " if ok else "FAIL", name, got, expect))
    return ok


BASE = ("CONSTANTS Script <- %(script)s Script2 <- %(script2)s MaxStops = %(stops)d MaxDamage = %(damage)d "
        "DEV_F2 = %(F2)s DEV_F10 = %(F10)s DEV_F19 = %(F19)s DEV_F25 = %(F25)s DEV_F4 = %(F4)s DEV_F6 = %(F6)s Blocking = FALSE InitStore <- NoStore InitDamage = 0 "
        "InMsgs <- NoIn AMax = 2 EMax = 2 MaxConns = %(conns)d DialFails = %(dial)d WriteFails = %(write)d ReadFails = %(read)d StoreFails = 0 "
        "MaxCalls = %(calls)d RecordHist = FALSE SampleK = 1\n")


def cfg(dev, script, script2="NoGen2", stops=0, damage=0, conns=2, dial=0, write=0, read=0, calls=4, tail=""):
    d = dict(script=script, script2=script2, stops=stops, damage=damage, conns=conns, dial=dial, write=write, read=read, calls=calls)
    for f in ("F2", "F10", "F19", "F25", "F4", "F6"):
        d[f] = "TRUE" if f == dev else "FALSE"
    return BASE % d + tail


def main(argv):
    ctx = vlib.Ctx("SELFTEST", "quick", 1)
    ok = True
    try:
        inv = "SPECIFICATION Spec\nVIEW view\nINVARIANTS TypeOK C02_AdoptMatchesLive C11_PongIsOwn C16_ResendFindsRecords C16_NoKeyCollision\nCHECK_DEADLOCK FALSE\n"
        ok &= tlc_dev(ctx, "F2", cfg("F2", "ScriptQ12", "Gen2Q2", stops=1, tail=inv), "C02_AdoptMatchesLive")
        ok &= tlc_dev(ctx, "F19", cfg("F19", "ScriptQ2", "Gen2Q2", stops=1, tail=inv), "C02_AdoptMatchesLive")
        inv16 = "SPECIFICATION Spec\nVIEW view\nINVARIANTS TypeOK C16_ResendFindsRecords C16_NoKeyCollision\nCHECK_DEADLOCK FALSE\n"
        three = lambda dev: cfg(dev, "ScriptQ222", "Gen2None", stops=1, damage=1, calls=6, tail=inv16).replace("EMax = 2", "EMax = 3")
        ok &= tlc_dev(ctx, "F10", three("F10"), "C16_ResendFindsRecords")
        ok &= tlc_dev(ctx, "none(3xQoS2)", three(""), None)
        ok &= tlc_dev(ctx, "F25", cfg("F25", "ScriptPings2", read=1, tail=inv), "C11_PongIsOwn")
        ok &= tlc_dev(ctx, "none", cfg("", "ScriptQ12", "Gen2Q2", stops=1, damage=1, tail=inv), None)
        live = "SPECIFICATION LiveSpec\nPROPERTIES %s\nCHECK_DEADLOCK FALSE\n"
        ok &= tlc_dev(ctx, "F4", cfg("F4", "ScriptF4", conns=4, write=1, calls=8, tail=live % "C10_ReaderProgress C01_Drained"), "temporal")
        ok &= tlc_dev(ctx, "F6", cfg("F6", "ScriptClose", conns=2, write=1, calls=5, tail=live % "C12_Returns C12_ReaderEnds"), "temporal")

        binary = ctx.go_build()
        behs = e_client.tlc_behaviours(ctx, "restart", 120)
        rnd = random.Random(7)
        # 2. altered gate
        bad_gate = []
        for b in behs[:60]:
            b2 = copy.deepcopy(b)
            idx = [i for i, s in enumerate(b2["steps"]) if "p" in s]
            i = idx[len(idx) // 2]
            b2["steps"][i]["at"] = "no.such.gate"
            b2["id"] += "-gate"
            bad_gate.append(b2)
        # 3. altered projection
        bad_state = []
        for b in behs[60:120]:
            b2 = copy.deepcopy(b)
            idx = [i for i, s in enumerate(b2["steps"]) if "x" in s and "p" in s]
            i = idx[len(idx) // 2]
            f = rnd.choice(["q2", "acked", "completed", "received"])
            b2["steps"][i]["x"][f] += 1
            b2["id"] += "-state"
            bad_state.append(b2)
        shards = pipeline.run_worker(ctx, binary, "run", behs[:60] + bad_gate + bad_state, nshards=8, timeout=600)
        div, mis, clean_div, clean_mis = set(), set(), 0, 0
        for sb, tp in shards:
            for line in open(tp):
                if '"e":"diverge"' in line or '"e":"mismatch"' in line:
                    e = json.loads(line)
                    bid = sb[e["case"] - 1]["id"]
                    if bid.endswith("-gate") and e["e"] == "diverge":
                        div.add(bid)
                    elif bid.endswith("-state") and e["e"] == "mismatch":
                        mis.add(bid)
                    elif not bid.endswith(("-gate", "-state")):
                        clean_div += e["e"] == "diverge"
                        clean_mis += e["e"] == "mismatch"
        for name, got, want in (("altered gate -> divergence", len(div), len(bad_gate)),
                                ("altered projection -> state mismatch", len(mis), len(bad_state))):
            good = got >= 0.9 * want
            ok &= good
            print("%s  %-40s %d of %d" % ("ok  " if good else "FAIL", name, got, want))
        good = clean_div == 0 and clean_mis == 0
        ok &= good
        print("%s  unaltered behaviours: %d divergences, %d mismatches (expected 0, 0)" % ("ok  " if good else "FAIL", clean_div, clean_mis))

        # 4. corrupted traces
        clean = [tp for sb, tp in shards]
        def judge_with(edit, label, clause):
            paths = []
            for k, tp in enumerate(clean):
                out = tp + "." + label
                with open(out, "w") as o:
                    for line in open(tp):
                        r = edit(line)
                        if r is not None:
                            o.write(r)
                paths.append(out)
            res = pipeline.judge(ctx, "MonitorRun", "MonitorRun.cfg", paths)
            hits = sum(1 for r in res for c, _, _ in r["bad"] if c == clause)
            print("%s  corrupted trace (%s): clause %s false %d times" % ("ok  " if hits > 0 else "FAIL", label, clause, hits))
            return hits > 0

        def drop_broker_acks(line):
            if '"e":"cr"' in line and ("PUBCOMP" in line or "PUBACK" in line):
                e = json.loads(line)
                e["pk"] = [p for p in e["pk"] if p["t"] not in ("PUBCOMP", "PUBACK")]
                return json.dumps(e, separators=(",", ":")) + "\n"
            return line

        def double_delivery(line):
            if '"e":"deliver"' in line:
                return line + line
            return line

        ok &= judge_with(drop_broker_acks, "noacks", "C01_NoForgedCompletion")
        ok &= judge_with(double_delivery, "twice", "C03_ExactlyOnceDelivery")
        base = pipeline.judge(ctx, "MonitorRun", "MonitorRun.cfg", clean)
        nbad = sum(1 for (sb, tp), r in zip(shards, base) for c, cid, _ in r["bad"]
                   if not sb[cid - 1]["id"].endswith(("-gate", "-state")) and not c.startswith("Harness_"))
        good = nbad == 0
        ok &= good
        print("%s  unaltered traces: %d clause failures (expected 0)" % ("ok  " if good else "FAIL", nbad))
        # 5. code -> model: explorer schedules are accepted; with one recorded gate altered they are rejected
        e_client.tlc_behaviours(ctx, "req", 1)
        e_client.conformance(ctx, binary, ["req"], 40)
        c0 = dict(ctx.cov["code_to_model"])
        e_client.conformance(ctx, binary, ["req"], 40, corrupt=True)
        c1 = dict(ctx.cov["code_to_model"])
        good = c0["rejected"] == 0 and c0["steps"] > 500
        ok &= good
        print("%s  explorer schedules against the actions: %d executions, %d steps, %d rejected (expected 0)" % ("ok  " if good else "FAIL", c0["executions"], c0["steps"], c0["rejected"]))
        good = c1["rejected"] + c1["select_races"] >= 0.9 * c1["executions"]
        ok &= good
        print("%s  one recorded gate altered per execution: %d of %d rejected" % ("ok  " if good else "FAIL", c1["rejected"] + c1["select_races"], c1["executions"]))
    except vlib.Inconclusive as e:
        print("INCONCLUSIVE selftest:", e)
        return 2
    print("SELFTEST %s" % ("passed" if ok else "FAILED"))
    return 0 if ok else 1
