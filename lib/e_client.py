"""Client engine: properties decided on executions of the real client under the gate scheduler.
Stimulus: (a) behaviours exported by TLC from spec/MqttClient.tla (MC_* configurations),
(b) seeded random schedules over the same gates (exploration beyond the model's bounds).
Judge: spec/Monitor.tla (TLC evaluates the property clauses on every recorded trace)."""
import json, os, random
import vlib, pipeline

PERSISTED = ["PublishAtLeastOnce", "PublishExactlyOnce", "PublishAtLeastOnceRetained", "PublishExactlyOnceRetained"]

# which scenario families serve which property, and which clause prefixes a property owns
FAMILIES = {
    "C01": ["out", "restart", "wrap"], "C02": ["restart", "restart", "wrap"], "C03": ["out", "restart"], "C04": ["in", "in", "inrestart", "inrestart", "inbig"],
    "C05": ["out", "restart", "wrap"], "C07": ["in"], "C10": ["connect", "req", "out", "in", "in"], "C11": ["req", "close", "connect", "hostile"],
    "C12": ["close"], "C13": ["hostile", "hostile", "in"], "C16": ["damage", "damagein"], "C17": ["out", "restart", "req", "wrap"],
    "C18": ["connect", "connect", "out"], "C14": ["req", "close", "out", "connect"], "C08": ["req", "out"],
}
OWNS = {p: [p + "_"] for p in FAMILIES}
OWNS["C13"] += ["C01_NoForgedCompletion", "C03_RelForUnknown"]
OWNS["C14"] += ["C01_AcceptedIsSaved", "C01_ErrorMeansNotEnqueued"]
OWNS["C09"] = ["C09_", "C08_WholePackets"]
OWNS["C15"] = ["C15_"]
OWNS["C06"] = ["C06_"]
FAMILIES["C15"] = ["out", "restart"]
FAMILIES["C09"] = ["req", "out"]
OWNS["C04"] += ["C07_ReturnedEventuallyAcked", "C07_AckBeforeRedelivery"]   # "every such PUBLISH ... is answered with PUBREC"
OWNS["C12"] += ["C13_NoPanic"]
OWNS["C16"] += ["C13_NoPanic"]


def tagger():
    n = [0]

    def nxt():
        n[0] += 1
        return n[0]
    return nxt


def fam_out(rnd, i, thorough):
    tag = tagger()
    nw = rnd.choice([1, 1, 2, 2, 3])
    procs = {"rd": {"kind": "reader"}}
    for w in range(nw):
        ops = []
        for _ in range(rnd.choice([1, 2, 3])):
            ops.append({"m": rnd.choice(PERSISTED[:2] * 3 + PERSISTED[2:]), "tag": tag(),
                        "size": rnd.choice([8, 8, 8, 200, 70000 if thorough else 300])})
        procs["w%d" % (w + 1)] = {"kind": "script", "ops": ops}
    faults = rnd.choice([0, 1, 2, 3, 4])
    limits = [1, 2, 3, 4, 1, 2, 3, 4, 1, 2, 3, 4, 0, -1, 20000]   # zero disables a level; negative and above 16384 mean 16384
    return {"id": "out-%d" % i, "cfg": {"amax": rnd.choice(limits), "emax": rnd.choice(limits)},
            "procs": procs, "epilogue": "drain",
            "random": {"seed": rnd.randrange(1 << 30), "max": 400, "faults": faults, "pwrite": 0.3, "pdial": 0.2,
                       "pstore": 0.08, "pbreak": 0.1, "pstall": 0.1}}


def fam_restart(rnd, i, thorough, damage=False, inbound=False):
    tag = tagger()
    b = fam_out(rnd, i, thorough)
    b["id"] = ("damage-%d" if damage else "restart-%d") % i
    gens = []
    q2heavy = rnd.random() < 0.4
    if q2heavy:
        for pr in b["procs"].values():
            for op in pr.get("ops", []):
                op["m"] = "PublishExactlyOnce"
        b["cfg"]["emax"] = 4
        b["random"]["faults"] = rnd.choice([0, 0, 1])
        if rnd.random() < 0.6:
            b["random"]["mute"] = ["PUBCOMP"]     # withheld acknowledgements: the PUBREL stage outlives the stops
    for g in range(2 if q2heavy else rnd.choice([1, 1, 2])):
        procs = {"rd%d" % (g + 2): {"kind": "reader"}}
        ops = [{"m": "PublishExactlyOnce" if q2heavy else rnd.choice(PERSISTED[:2]), "tag": 100 * (g + 1) + k + 1, "size": 8}
               for k in range(rnd.choice([1, 2]) if q2heavy else rnd.choice([0, 1, 2]))]
        if ops:
            procs["v%d" % (g + 2)] = {"kind": "script", "ops": ops}
        gens.append(procs)
    b["random"].update({"gens": gens, "pstop": rnd.choice([0.01, 0.03]), "pstopio": rnd.choice([0.02, 0.05, 0.1]), "max": 600})
    if damage:
        keys = [0x8000, 0x8001, 0xc000, 0xc001, 0x8002, 0xc002]
        b["random"]["damage"] = [{"env": "damage", "key": rnd.choice(keys), "how": rnd.choice(["flip", "trunc", "remove"])}
                                 for _ in range(rnd.choice([1, 1, 2]))]
        if i % 97 == 0:   # the client-identifier record (known finding F11b: nothing can be connected with)
            b["random"]["damage"] = [{"env": "damage", "key": 0, "how": "flip" if i % 2 == 0 else "trunc"}]
        b["random"]["pstop"] = 0.02
        b["random"]["faults"] = 0
    return b


def fam_req(rnd, i, thorough):
    tag = tagger()
    procs = {"rd": {"kind": "reader"}}
    for w in range(rnd.choice([1, 2, 3])):
        ops = []
        for _ in range(rnd.choice([1, 2, 3])):
            m = rnd.choice(["Subscribe", "Unsubscribe", "Ping", "Publish", "SubscribeLimitAtLeastOnce", "Ping", "Subscribe"])
            op = {"m": m, "tag": tag(), "quit": rnd.choice(["nil", "nil", "open", "later", "later"])}
            if "ubscribe" in m:
                op["filters"] = rnd.choice([["a%d" % w], ["a%d" % w, "fail/b%d" % w], ["fail/c%d" % w, "d%d" % w, "fail/e"], ["x/y"]])
            if m == "Publish":
                op["size"] = rnd.choice([8, 200])
            ops.append(op)
        procs["w%d" % (w + 1)] = {"kind": "script", "ops": ops}
    return {"id": "req-%d" % i, "cfg": {"amax": 2, "emax": 2}, "procs": procs, "epilogue": "drain",
            "random": {"seed": rnd.randrange(1 << 30), "max": 400, "faults": rnd.choice([0, 1, 2]), "pwrite": 0.1, "pdial": 0.1,
                       "pstore": 0.0, "pbreak": 0.08, "pstall": 0.05, "pquit": rnd.choice([0.02, 0.06, 0.15])}}


def fam_close(rnd, i, thorough):
    b = fam_req(rnd, i, thorough) if rnd.random() < 0.5 else fam_out(rnd, i, thorough)
    b["id"] = "close-%d" % i
    for c in range(rnd.choice([1, 1, 2])):
        ops = [{"m": rnd.choice(["Close", "Close", "Disconnect"]), "quit": rnd.choice(["nil", "nil", "open", "closed"])}]
        if rnd.random() < 0.5:
            ops.append({"m": rnd.choice(["Publish", "Ping", "PublishAtLeastOnce", "Subscribe", "Close", "Disconnect"]),
                        "tag": 900 + c, "size": 8, "filters": ["late"], "quit": "nil"})
        b["procs"]["c%d" % (c + 1)] = {"kind": "script", "ops": ops}
    if rnd.random() < 0.6:   # Close issued at a chosen gate of the others and run to completion
        b["random"]["burst"] = {"p": "c1", "at": rnd.randrange(0, 90)}
    if rnd.random() < 0.3:
        b["cfg"]["lazyexch"] = True
    return b


def fam_in(rnd, i, thorough, restart=False):
    b = fam_req(rnd, i, thorough) if rnd.random() < 0.6 else {"cfg": {"amax": 2, "emax": 2}, "procs": {"rd": {"kind": "reader"}},
                                                             "epilogue": "drain", "random": {"seed": 0, "max": 400}}
    b["id"] = ("inrestart-%d" if restart else "in-%d") % i
    b["random"].update({"seed": rnd.randrange(1 << 30), "faults": rnd.choice([0, 1, 2, 3]), "pwrite": 0.25, "pdial": 0.05,
                        "pstore": 0.05, "pbreak": 0.08, "pstall": 0.15,
                        "inbound": [{"qos": rnd.choice([0, 1, 2, 2, 2]), "tag": 500 + k, "size": rnd.choice([8, 8, 100])}
                                    for k in range(rnd.choice([1, 2, 3, 4, 6]))]})
    for k, m in enumerate(b["random"]["inbound"]):
        if k > 0 and rnd.random() < 0.5:
            m["after"] = True      # identifier reuse: published once the earlier deliveries completed
    if rnd.random() < 0.4:   # messages beyond the read buffer (distinct sizes identify them), read or skipped
        b["cfg"]["readbuf"] = 64
        for k, m in enumerate(b["random"]["inbound"]):
            m["size"] = rnd.choice([8, 40, 70 + 3 * k, 150 + 3 * k])
        b["procs"]["rd"]["big"] = rnd.choice(["read", "skip"])
    if restart:
        b["random"].update({"gens": [{"rd2": {"kind": "reader"}}], "pstop": 0.01, "pstopio": 0.06, "pstore": 0.0})
    elif rnd.random() < 0.25:
        # the broker's identifiers coincide with identifiers the client has in flight in the other direction: publishes
        # of both levels whose acknowledgements are withheld, and publications numbered from 0x7fff / 0xbfff upwards
        b["procs"]["v1"] = {"kind": "script", "ops": [{"m": rnd.choice(PERSISTED[:2]), "tag": 50 + k, "size": 8} for k in range(2)]}
        b["random"].update({"mute": ["PUBACK", "PUBREC"], "inidbase": rnd.choice([0x7fff, 0xbfff])})
        for m in b["random"]["inbound"]:
            m["after"] = False
    return b


def fam_inbig(rnd, i, thorough):
    """Exactly-once (and at-least-once) messages beyond the read buffer on connections that break: the retransmission
    of a big message that the application owns already has to be skipped as a whole, and what follows it delivered."""
    b = {"id": "inbig-%d" % i, "cfg": {"amax": 2, "emax": 2, "readbuf": 64}, "epilogue": "drain",
         "procs": {"rd": {"kind": "reader", "big": rnd.choice(["read", "skip"])}},
         "random": {"seed": rnd.randrange(1 << 30), "max": 400, "faults": rnd.choice([1, 2, 3]), "pwrite": 0.05, "precfail": 0.6, "pdial": 0.0,
                    "pstore": 0.0, "pbreak": 0.05, "pstall": 0.05,
                    "inbound": [{"qos": rnd.choice([2, 2, 2, 1]), "tag": 500 + k, "size": rnd.choice([70 + 3 * k, 150 + 3 * k, 70 + 3 * k, 8 + k])}
                                for k in range(rnd.choice([2, 3, 4]))]}}
    b["random"]["inbound"][0].update({"qos": 2, "size": rnd.choice([71, 151])})
    if rnd.random() < 0.5:   # without PauseTimeout a read routine that lost its place in the stream waits for ever
        b["cfg"]["nopause"] = True
        b["random"]["pstall"] = 0.0
    return b


def fam_damagein(rnd, i, thorough):
    """A stop while exactly-once receptions are under way, damage to the inbound markers (or removal), adoption."""
    b = fam_in(rnd, i, thorough, restart=True)
    b["id"] = "damagein-%d" % i
    for m in b["random"]["inbound"]:
        m["qos"] = 2
    b["random"].update({"faults": 0, "pstopio": 0.15, "pstop": 0.03,
                        "damage": [{"env": "damage", "key": 0x10000 + rnd.choice([1, 1, 2, 3]), "how": rnd.choice(["flip", "trunc", "remove"])}
                                   for _ in range(rnd.choice([1, 1, 2]))]})
    return b


def fam_connect(rnd, i, thorough):
    b = fam_req(rnd, i, thorough)
    if rnd.random() < 0.7:  # pending transfers to resend, next to the requests
        b["procs"]["v1"] = {"kind": "script", "ops": [{"m": rnd.choice(PERSISTED[:2]), "tag": 50 + k, "size": 8} for k in range(rnd.choice([1, 2]))]}
    b["id"] = "connect-%d" % i
    b["cfg"]["clean"] = rnd.random() < 0.5
    b["random"].update({"faults": rnd.choice([1, 2, 3, 4]), "pdial": 0.3, "pwrite": 0.3, "pbreak": 0.15, "pstore": 0.1})
    return b


# (hex, is a protocol violation that must be answered with a reset, note)
HOSTILE = [
    ("0000", True, "reserved type 0"), ("f000", True, "reserved type 15"), ("1000", True, "CONNECT from broker"),
    ("8200", True, "SUBSCRIBE from broker"), ("a200", True, "UNSUBSCRIBE from broker"), ("c000", True, "PINGREQ from broker"),
    ("e000", True, "DISCONNECT from broker"), ("20020000", True, "second CONNACK"),
    ("308380808000000174", True, "remaining length in 5 bytes"), ("30ffffffff7f", True, "remaining length in 5 bytes (max)"),
    ("40020000", True, "PUBACK id zero"), ("40026000", True, "PUBACK foreign id space"), ("40028005", True, "PUBACK out of order"),
    ("400100", True, "PUBACK short"), ("4003800000", True, "PUBACK long"), ("5002c005", True, "PUBREC out of order"),
    ("50020000", True, "PUBREC id zero"), ("7002c000", True, "PUBCOMP without PUBREL"), ("70028000", True, "PUBCOMP foreign space"),
    ("9003600003", True, "SUBACK illegal return code"), ("9003000000", True, "SUBACK id zero"), ("9003400000", True, "SUBACK foreign space"),
    ("90026000", True, "SUBACK without codes"), # (whether these violate depends on the request pending under that identifier: not judged for the reset, they
    # drive the return-code-count mismatch of onSUBACK)
    ("90056000000000", False, "SUBACK with three return codes"), ("9003600000", False, "SUBACK with one return code"),
    ("9003600100", False, "SUBACK with one return code, second request"), ("90037ff000", False, "SUBACK unknown id (tolerated)"),
    ("b0026000", True, "UNSUBACK with SUBSCRIBE id"), ("b0020000", True, "UNSUBACK id zero"), ("b0025ff0", False, "UNSUBACK unknown id (tolerated)"),
    ("b003400000", True, "UNSUBACK long"), ("d00100", True, "PINGRESP with payload"), ("d000", False, "wandering PINGRESP (tolerated)"),
    ("36050001740001", True, "PUBLISH QoS 3"), ("3003000574", True, "PUBLISH topic exceeds packet"), ("32050001740000", True, "PUBLISH id zero"),
    ("3203000174", True, "PUBLISH QoS 1 without id"), ("62020000", True, "PUBREL id zero"), ("62020009", False, "PUBREL unknown id (tolerated)"),
    ("620100", True, "PUBREL short"), ("3000", True, "PUBLISH without topic length"),
]


def fam_hostile(rnd, i, thorough):
    b = fam_req(rnd, i, thorough)
    if rnd.random() < 0.6:
        b["procs"]["v1"] = {"kind": "script", "ops": [{"m": rnd.choice(PERSISTED[:2]), "tag": 50 + k, "size": 8} for k in range(rnd.choice([1, 2]))]}
    b["id"] = "hostile-%d" % i
    r = rnd.random()
    if r < 0.12:
        b["random"]["mute"] = ["SUBACK-miscount"]   # the broker answers SUBSCRIBE with one return code too many
    elif r < 0.24:
        b["random"]["mute"] = ["SUBACK-badcode"]    # ... or with a return code the protocol does not have
    inj = []
    for _ in range(rnd.choice([1, 1, 2, 3])):
        if rnd.random() < 0.15:
            raw = bytes(rnd.randrange(256) for _ in range(rnd.choice([1, 2, 3, 5, 8])))
            inj.append({"hex": raw.hex(), "violation": False, "note": "random bytes"})
        else:
            h = rnd.choice(HOSTILE)
            inj.append({"hex": h[0], "violation": h[1], "note": h[2]})
    b["random"].update({"hostile": inj, "faults": rnd.choice([0, 0, 1]), "pstall": 0.1})
    return b


def fam_wrap(rnd, i, thorough):
    """Sequence numbers next to the 14-bit wrap: resends, stops and adoptions with the pending range straddling it."""
    b = fam_restart(rnd, i, thorough) if rnd.random() < 0.6 else fam_out(rnd, i, thorough)
    b["id"] = "wrap-%d" % i
    b["cfg"].update({"startseq": rnd.choice([16380, 16381, 16382, 16383]), "amax": 4, "emax": 4})
    if rnd.random() < 0.5:   # nothing gets through at first: the whole window stays pending
        b["random"].update({"pdial": 0.9, "faults": 3})
    return b


GEN = {"hostile": fam_hostile, "wrap": fam_wrap, "out": fam_out, "restart": fam_restart, "req": fam_req, "close": fam_close, "in": fam_in, "connect": fam_connect,
       "damage": lambda r, i, t: fam_restart(r, i, t, damage=True),
       "inrestart": lambda r, i, t: fam_in(r, i, t, restart=True), "damagein": fam_damagein, "inbig": fam_inbig}


# Bounded instances of spec/MqttClient.tla: script, constants, export sampling (1 = whole transition cover)
MC = {
    "one":   dict(script="ScriptOne",   amax=2, emax=2, conns=2, dial=1, write=1, read=1, store=0, calls=4, k_quick=4, k_thorough=1),
    "q2":    dict(script="ScriptQ2",    amax=2, emax=2, conns=2, dial=1, write=1, read=1, store=1, calls=4, k_quick=40, k_thorough=8),
    "close": dict(script="ScriptClose", amax=2, emax=2, conns=2, dial=1, write=1, read=1, store=0, calls=4, k_quick=200, k_thorough=40),
    "two":   dict(script="ScriptTwo",   amax=2, emax=2, conns=2, dial=0, write=1, read=0, store=0, calls=3, k_quick=400, k_thorough=80),
    "max1":  dict(script="ScriptTwo",   amax=1, emax=1, conns=1, dial=0, write=0, read=0, store=0, calls=3, k_quick=30, k_thorough=6),
    "req":   dict(script="ScriptReq",   amax=2, emax=2, conns=2, dial=1, write=1, read=0, store=0, calls=4, k_quick=50, k_thorough=10),
    "pings": dict(script="ScriptPings", amax=2, emax=2, conns=2, dial=1, write=1, read=0, store=0, calls=4, k_quick=40, k_thorough=8),
    "reqclose": dict(script="ScriptReqClose", amax=2, emax=2, conns=2, dial=0, write=1, read=0, store=0, calls=3, k_quick=300, k_thorough=60),
    "in":    dict(script="ScriptNone", inmsgs="In012", amax=2, emax=2, conns=2, dial=0, write=1, read=1, store=1, calls=7, k_quick=25, k_thorough=5),
    "in22":  dict(script="ScriptNone", inmsgs="In22", amax=2, emax=2, conns=3, dial=0, write=1, read=1, store=1, calls=7, k_quick=100, k_thorough=20),
    # a retransmitted exactly-once PUBLISH is confirmed again while a request of another goroutine has lost the connection
    "inw":   dict(script="ScriptP0", inmsgs="In2", amax=2, emax=2, conns=3, dial=0, write=2, read=0, store=0, calls=6, k_quick=100, k_thorough=20),
    "restart": dict(script="ScriptQ2", script2="Gen2Q2", stops=1, amax=2, emax=2, conns=2, dial=0, write=0, read=0, store=0, calls=4, k_quick=20, k_thorough=4),
    "restart2": dict(script="ScriptQ12", script2="Gen2Q1", stops=2, amax=2, emax=2, conns=2, dial=0, write=0, read=0, store=0, calls=4, k_quick=300, k_thorough=60),
    "damage": dict(script="ScriptQ12", script2="Gen2Q2", stops=1, damage=1, amax=2, emax=2, conns=2, dial=0, write=0, read=0, store=0, calls=4, k_quick=150, k_thorough=30),
    # the specification with a pinned behaviour switched back on: it regenerates the finding as behaviours that reach a
    # forbidden state (ExportBad); replayed on the real code they reproduce the defect if it ever returns
    "devF25": dict(script="ScriptPings2", dev="F25", bad=True, amax=2, emax=2, conns=2, dial=0, write=0, read=1, store=0, calls=4, k_quick=1, k_thorough=1),
    "damage3": dict(script="ScriptQ222", script2="Gen2None", stops=1, damage=1, amax=2, emax=3, conns=2, dial=0, write=0, read=0, store=0, calls=6, k_quick=400, k_thorough=80),
    "disc":  dict(script="ScriptDisc", amax=2, emax=2, conns=2, dial=1, write=1, read=0, store=0, calls=4, k_quick=60, k_thorough=12),
    "discreq": dict(script="ScriptDiscReq", amax=2, emax=2, conns=2, dial=0, write=1, read=0, store=0, calls=3, k_quick=120, k_thorough=24),
    "damage5": dict(script="ScriptQ1x5", script2="Gen2None", stops=1, damage=2, amax=5, emax=2, conns=2, dial=0, write=0, read=0, store=0, calls=6, k_quick=2000, k_thorough=400),
    "damage24": dict(script="ScriptQ2x4", script2="Gen2None", stops=1, damage=1, amax=2, emax=4, conns=2, dial=0, write=0, read=0, store=0, calls=7, k_quick=6000, k_thorough=1200, thorough_only=True),
    "inrestart": dict(script="ScriptNone", script2="Gen2None", inmsgs="In22", stops=1, amax=2, emax=2, conns=3, dial=0, write=1, read=1, store=0, calls=8, k_quick=200, k_thorough=40),
    # the same scripts with processes that may block inside the library after they left their gate (thorough tier)
    "req_b": dict(script="ScriptReq", blocking=True, amax=2, emax=2, conns=2, dial=1, write=1, read=0, store=0, calls=4, k_quick=200, k_thorough=40, thorough_only=True),
    "close_b": dict(script="ScriptClose", blocking=True, amax=2, emax=2, conns=2, dial=1, write=1, read=1, store=0, calls=4, k_quick=400, k_thorough=80, thorough_only=True),
    # runs that start with the adoption of a Persistence an earlier incarnation left behind, with every subset of up to two
    # records removed or altered before (StoreWrap: both sequences straddle the identifier wrap)
    "seedmix": dict(script="ScriptNew", initstore="StoreMix", initdamage=2, amax=4, emax=4, conns=2, dial=0, write=0, read=0, store=0, calls=12, k_quick=500, k_thorough=100),
    "seedwrap": dict(script="ScriptNew", initstore="StoreWrap", initdamage=2, amax=4, emax=4, conns=2, dial=0, write=0, read=0, store=0, calls=12, k_quick=400, k_thorough=80),
    "seedwrap0": dict(script="ScriptNew", initstore="StoreWrap", initdamage=0, amax=4, emax=4, conns=2, dial=0, write=0, read=1, store=0, calls=12, k_quick=800, k_thorough=160),
    "seedwrapb0": dict(script="ScriptNew", initstore="StoreWrapB", initdamage=0, amax=4, emax=4, conns=2, dial=0, write=0, read=1, store=0, calls=12, k_quick=400, k_thorough=80),
    "seedwrapb": dict(script="ScriptNew", initstore="StoreWrapB", initdamage=1, amax=4, emax=4, conns=2, dial=0, write=0, read=0, store=0, calls=12, k_quick=400, k_thorough=80),
    "seedrels": dict(script="ScriptNew", initstore="StoreRels", initdamage=1, amax=2, emax=2, conns=2, dial=0, write=1, read=1, store=0, calls=8, k_quick=200, k_thorough=40),
    "q12w2": dict(script="ScriptQ12", amax=2, emax=2, conns=2, dial=0, write=2, read=0, store=0, calls=4, k_quick=25, k_thorough=5),
    "quit":  dict(script="ScriptQuit", amax=2, emax=2, conns=2, dial=0, write=0, read=1, store=0, calls=4, k_quick=150, k_thorough=30),
    "unsub": dict(script="ScriptUnsub", amax=2, emax=2, conns=2, dial=0, write=1, read=1, store=0, calls=4, k_quick=100, k_thorough=20),
    "mixreq": dict(script="ScriptMixReq", amax=2, emax=2, conns=2, dial=1, write=1, read=0, store=0, calls=4, k_quick=100, k_thorough=20),
}
MC_FOR = {
    "C01": ["one", "q2"], "C03": ["q2", "seedwrap0", "seedwrapb0"], "C05": ["two", "seedwrap0"], "C10": ["one", "mixreq", "inw"], "C12": ["close", "reqclose", "disc", "discreq", "close_b"], "C17": ["max1", "one"],
    "C18": ["one", "req"], "C14": ["req", "close", "quit", "unsub"], "C08": ["mixreq", "two", "q12w2"], "C11": ["req", "pings", "quit", "unsub", "devF25", "req_b"],
    "C04": ["in22", "in", "inrestart"], "C07": ["in", "in22", "inrestart"], "C13": ["in"], "C02": ["restart", "restart2", "seedwrap", "seedrels", "seedwrapb0"], "C16": ["damage", "damage3", "damage5", "damage24", "seedmix", "seedwrap", "seedwrapb"],
}
INVARIANTS = ("TypeOK C01_NoForgedCompletion C03_ExactlyOnceDelivery C05_WireOrderIsIdOrder C07_AckedOnlyIfReturned C08_WholePackets C12_Signals C17_Bounded "
              "C18_ConnectFirst C11_PongIsOwn C02_AdoptMatchesLive C02_NoWarnings C16_ResendFindsRecords C16_PendingAreStored C16_NoKeyCollision")


# Liveness of the design under fairness (small instances, no hist): (script, conns, dial, write, read, store, calls, properties)
LIVE = {
    "live_one":   ("ScriptOne",   3, 1, 1, 1, 0, 8, "C10_ReaderProgress C01_Drained C11_Returns"),
    "live_f4":    ("ScriptF4",    4, 0, 1, 0, 0, 8, "C10_ReaderProgress C01_Drained"),
    "live_req":   ("ScriptReq",   3, 0, 1, 0, 0, 6, "C11_Returns C10_ReaderProgress"),
    "live_close": ("ScriptClose", 2, 0, 1, 0, 0, 5, "C12_Returns C12_ReaderEnds"),
    "live_disc":  ("ScriptDisc", 2, 0, 1, 0, 0, 5, "C12_Returns C12_ReaderEnds"),
}
LIVE_FOR = {"C01": ["live_one", "live_f4"], "C10": ["live_one", "live_f4"], "C11": ["live_req"], "C12": ["live_close", "live_disc"], "C03": ["live_f4"]}


def tlc_liveness(ctx, name, dev=""):
    sc, conns, dial, write, read, store, calls, props = LIVE[name]
    cfg = ("CONSTANTS Script <- %s Script2 <- NoGen2 MaxStops = 0 MaxDamage = 0 DEV_F2 = FALSE DEV_F10 = FALSE DEV_F19 = FALSE DEV_F25 = FALSE Blocking = FALSE InitStore <- NoStore InitDamage = 0 InMsgs <- NoIn AMax = 2 EMax = 2 MaxConns = %d DialFails = %d WriteFails = %d ReadFails = %d StoreFails = %d "
           "MaxCalls = %d RecordHist = FALSE DEV_F4 = %s DEV_F6 = %s SampleK = 1\nSPECIFICATION LiveSpec\nPROPERTIES %s\nCHECK_DEADLOCK FALSE\n") % (
        sc, conns, dial, write, read, store, calls, "TRUE" if dev == "F4" else "FALSE", "TRUE" if dev == "F6" else "FALSE", props)
    cfgname = "MC_client_%s%s_gen.cfg" % (name, dev)
    with open(os.path.join(ctx.specdir(), cfgname), "w") as f:
        f.write(cfg)
    return pipeline.model_check(ctx, "MC_client", cfgname, workers=8, timeout=900, expect_ok=(dev == ""))


def tlc_behaviours(ctx, name, cap):
    """Model-checks one bounded instance (design-level result) and returns exported behaviours."""
    c = MC[name]
    k = c["k_quick"] if ctx.tier == "quick" else c["k_thorough"]
    dev = c.get("dev", "")
    cfg = ("CONSTANTS Script <- %s Script2 <- " + c.get("script2", "NoGen2") + (" MaxStops = %d MaxDamage = %d" % (c.get("stops", 0), c.get("damage", 0)))
           + "".join(" DEV_%s = %s" % (f, "TRUE" if f == dev else "FALSE") for f in ("F2", "F10", "F19", "F25")) + " Blocking = " + ("TRUE" if c.get("blocking") else "FALSE")
           + " InitStore <- " + c.get("initstore", "NoStore") + " InitDamage = %d" % c.get("initdamage", 0)
           + " InMsgs <- " + c.get("inmsgs", "NoIn") + " AMax = %d EMax = %d MaxConns = %d DialFails = %d WriteFails = %d ReadFails = %d "
           "StoreFails = %d MaxCalls = %d RecordHist = TRUE DEV_F4 = FALSE DEV_F6 = FALSE SampleK = %d\n"
           "SPECIFICATION Spec\nVIEW view\nINVARIANTS %s\nPROPERTIES C08_NothingAfterIncomplete\nCHECK_DEADLOCK FALSE\nACTION_CONSTRAINT %s\n") % (
        c["script"], c["amax"], c["emax"], c["conns"], c["dial"], c["write"], c["read"], c["store"], c["calls"], k,
        "TypeOK" if c.get("bad") else INVARIANTS, "ExportBad" if c.get("bad") else "ExportStep")
    cfgname = "MC_client_%s_gen.cfg" % name
    with open(os.path.join(ctx.specdir(), cfgname), "w") as f:
        f.write(cfg)
    res = pipeline.model_check(ctx, "MC_client", cfgname, args=["-seed", str(ctx.seed)], timeout=1500)
    cases = pipeline.parse_cases(res, "BAD" if c.get("bad") else "CASE", limit=max(3000, cap * 4))
    if c.get("bad"):
        cases = cases[:40]
        ctx.cov["regenerated_findings"] = ctx.cov.get("regenerated_findings", {})
        ctx.cov["regenerated_findings"][name] = len(cases)
    script = pipeline.parse_cases(res.out, "SCRIPT")[0]
    script2 = pipeline.parse_cases(res.out, "SCRIPT2")[0]
    if not isinstance(script2, dict):
        script2 = {}
    inmsgs = pipeline.parse_cases(res.out, "INMSGS")[0]
    SCRIPTS[name] = (script, script2, inmsgs if isinstance(inmsgs, list) else [])
    initstore = pipeline.parse_cases(res.out, "INITSTORE")[0]
    seed = [{"key": int(k), "kind": v["kind"], "tag": v["tag"], "sseq": v["sseq"]} for k, v in sorted(initstore.items())] if isinstance(initstore, dict) else []
    rare = []
    if not c.get("bad"):   # an even choice among the places of the read routine's own writes
        kinds = {}
        for x in pipeline.parse_cases(res, "RARE", limit=20000):
            kinds.setdefault(x.get("kind", ""), []).append(x)
        rr = random.Random(ctx.seed + 5)
        for v in kinds.values():
            rr.shuffle(v)
        while len(rare) < cap // 4 and any(kinds.values()):
            for kd in sorted(kinds):
                if kinds[kd] and len(rare) < cap // 4:
                    rare.append(kinds[kd].pop())
        rk = ctx.cov.setdefault("rare_steps_exported", {})
        for x in rare:
            rk[x.get("kind", "")] = rk.get(x.get("kind", ""), 0) + 1
    steps = [x["steps"] for x in cases]
    keys = [json.dumps(x, sort_keys=True, separators=(",", ":")) for x in steps]
    # a behaviour that is a prefix of another exported one is covered by it
    allkeys = sorted(set(keys))
    maximal = []
    for i, kx in enumerate(allkeys):
        stem = kx[:-1]
        if i + 1 < len(allkeys) and allkeys[i + 1].startswith(stem + ","):
            continue
        maximal.append(json.loads(kx))
    rnd = random.Random(ctx.seed)
    rnd.shuffle(maximal)
    maximal = ([x["steps"] for x in rare] + maximal)[:cap]
    def mkprocs(sc, reader):
        r = {reader: {"kind": "reader"}}
        for p, ops in sc.items():
            if ops:
                r[p] = {"kind": "script", "ops": [{"m": o["m"], "tag": o["tag"], "size": 8, "filters": ["a/b"], "quit": o.get("quit", "nil")} for o in ops]}
        return r
    procs = mkprocs(script, "rd")
    for st in maximal:
        reader = "rd"
        later = {}
        for step in reversed(st):   # the gate each process is at after its step = the gate of its next step
            if "p" in step and "at" in step:
                if step["p"] in later:
                    step["next"] = later[step["p"]]
                later[step["p"]] = step["at"]
            elif step.get("env") == "stop":
                later = {}
        for step in st:
            if step.get("o") == "part":        # deadline expiry after one byte: the library continues with the rest
                step["o"], step["n"] = "timeout", 1
            if step.get("env") == "bsend":
                step["pkt"].update({"topic": "in/t", "len": 8})
            elif step.get("env") == "adopt" and step["gen"] == 1:
                step["start"] = mkprocs(script, "rd")     # the run starts with the adoption of a seeded Persistence
            elif step.get("env") == "adopt":
                # the processes of the next generation start on the adopted client; its read routine is a new process
                reader = "rd%d" % step["gen"]
                step["start"] = mkprocs(script2 if step["gen"] == 2 else {}, reader)
            elif step.get("p") == "rd":
                step["p"] = reader
    ctx.cov["behaviours_exported"] = ctx.cov.get("behaviours_exported", 0) + len(cases)
    if k == 1 and len(maximal) == len([1 for _ in maximal]) and cap >= len(maximal):
        ctx.cov["exhaustive_configs"] = ctx.cov.get("exhaustive_configs", []) + [name]
    return [dict({"id": "mc-%s-%d" % (name, i), "cfg": dict({"amax": c["amax"], "emax": c["emax"]}, **({"seed": seed} if seed else {})), "procs": procs, "steps": st,
                  "epilogue": "drain"}, **({"dev": dev} if c.get("bad") else {})) for i, st in enumerate(maximal)]


def utxwrap():
    """One long history in free mode: two SUBSCRIBEs with adjacent identifiers stay unanswered (slow broker) while a third
    process completes 8 194 requests, so that the 13-bit counter of the unordered transactions wraps onto them."""
    return {"id": "utxwrap-0", "cfg": {"amax": 2, "emax": 2}, "mute": ["SUBACK-hold"], "epilogue": "drain", "waitfor": ["wC"],
            "procs": {"rd": {"kind": "reader"},
                      "wA": {"kind": "script", "ops": [{"m": "Subscribe", "tag": 1, "quit": "nil", "filters": ["hold/a"]}]},
                      "wB": {"kind": "script", "ops": [{"m": "Subscribe", "tag": 2, "quit": "nil", "filters": ["hold/b"]}]},
                      "wC": {"kind": "script", "delay": 1000, "repeat": 8194,
                             "ops": [{"m": "Subscribe", "tag": 3, "quit": "nil", "filters": ["c"]}]}}}


def stallclose(k):
    """Free mode: the broker stops reading the first connection after k client writes (during the resend of two
    pending publishes); Close is called while the read routine is blocked in that write and has to return."""
    return lambda: {"id": "stallclose-%d" % k, "cfg": {"amax": 2, "emax": 2}, "stallafter": k, "epilogue": "drain",
                    "procs": {"rd": {"kind": "reader"},
                              "v1": {"kind": "script", "ops": [{"m": "PublishAtLeastOnce", "tag": 1, "size": 8},
                                                               {"m": "PublishExactlyOnce", "tag": 2, "size": 8}]},
                              "c1": {"kind": "script", "delay": 200, "ops": [{"m": "Close", "quit": "nil"}]}}}


EXTRA = {"C17": [utxwrap], "C11": [utxwrap], "C12": [stallclose(1), stallclose(2)]}


SCRIPTS = {}   # instance name -> (script, script of the second generation, inbound messages), as TLC printed them


def conformance(ctx, binary, names, per, corrupt=False):
    """Code -> model: seeded schedules of the explorer over the scripts of the bounded instances, restricted to the
    vocabulary of the specification, validated step by step against the actions of MqttClient (spec/ClientTrace.tla)."""
    rnd = random.Random(ctx.seed * 31 + vlib.stable_hash(ctx.prop))
    total = dict(executions=0, steps=0, rejected=0, select_races=0)
    reasons = {}
    for name in names:
        c = MC[name]
        if name not in SCRIPTS or c.get("bad") or c.get("damage") or c.get("initstore") or c.get("blocking"):
            continue
        script, script2, inmsgs = SCRIPTS[name]
        def mk(sc, reader):
            r = {reader: {"kind": "reader"}}
            for p, ops in sc.items():
                if ops:
                    r[p] = {"kind": "script", "ops": [{"m": o["m"], "tag": o["tag"], "size": 8, "filters": ["a/b"], "quit": o.get("quit", "nil")} for o in ops]}
            return r
        behs = []
        for i in range(per):
            rd = {"seed": rnd.randrange(1 << 30), "max": 300, "plain": True, "faults": rnd.choice([0, 1, 2, 3]),
                  "pwrite": 0.2, "pdial": 0.15, "pstore": 0.1 if c["store"] else 0.0, "pbreak": 0.1, "pstall": 0.0,
                  "pquit": 0.1, "inbound": [{"qos": m["qos"], "tag": m["tag"], "size": 8, "after": False} for m in inmsgs]}
            if c.get("stops"):
                rd.update({"gens": [mk(script2, "rd2")], "pstop": 0.02, "pstopio": 0.05})
            behs.append({"id": "conf-%s-%d" % (name, i), "cfg": {"amax": c["amax"], "emax": c["emax"]}, "procs": mk(script, "rd"),
                         "epilogue": "drain", "random": rd})
        shards = pipeline.run_worker(ctx, binary, "run", behs, nshards=4, timeout=900)
        paths = []
        for k, (sb, tp) in enumerate(shards):
            out = tp + ".conf"
            with open(out, "w") as o:
                pending = None    # the last process step, waiting for the gate its process reaches next
                nproc = [0]
                def flush():
                    nonlocal pending
                    if pending is not None:
                        nproc[0] += 1
                        if corrupt and nproc[0] == 5:
                            pending["at"] = "no.such.gate"    # self-test: a recorded gate is altered
                        o.write(json.dumps(pending, separators=(",", ":")) + "\n")
                        pending = None
                for line in open(tp):
                    e = json.loads(line)
                    k_ = e.get("e")
                    if k_ == "reset":
                        flush()
                        nproc[0] = 0
                        o.write(json.dumps({"e": "reset", "case": e["case"]}) + "\n")
                    elif k_ == "step":
                        flush()
                        if "env" not in e:
                            pending = {"e": "step", "kind": "proc", "p": e["p"], "at": e["at"], "o": e["o"], "n": e.get("n", 0),
                                       "next": "?", "seq": e["seq"]}
                        elif e["env"] == "inject":
                            o.write(json.dumps({"e": "step", "kind": "inject", "seq": e["seq"]}) + "\n")
                        elif e["env"] == "adopt":
                            o.write(json.dumps({"e": "step", "kind": "restart", "seq": e["seq"]}) + "\n")
                        elif e["env"] == "quit":
                            o.write(json.dumps({"e": "step", "kind": "quit", "p": e["p"], "seq": e["seq"]}) + "\n")
                    elif k_ in ("cr", "cw") and pending is not None and e.get("p") == pending["p"] and pending["at"] in ("conn.Read", "conn.Write"):
                        # the outcome that took effect (a connection closed meanwhile overrides what the explorer asked for)
                        eff = {"": "ok", "closed": "closed", "hard": "err", "timeout": "timeout", "eof": "eof"}.get(e.get("err", ""), pending["o"])
                        if not (eff == "ok" and pending["o"] == "n"):
                            pending["o"] = eff
                        if eff == "timeout":
                            pending["n"] = e.get("n", 0)
                    elif k_ == "gate" and pending is not None and e.get("p") == pending["p"]:
                        pending["next"] = e["site"]
                        flush()
                    elif k_ == "exit" and pending is not None and e.get("p") == pending["p"]:
                        pending["next"] = ""
                        flush()
                    elif k_ == "snap":
                        flush()
                        e2 = {f: e[f] for f in ("acked", "received", "completed", "accept1", "accept2", "submit1", "submit2", "q1", "q2",
                                                "pack", "wsem", "csem", "ping", "utx", "online", "offline", "seq")}
                        e2["e"] = "snap"
                        o.write(json.dumps(e2, separators=(",", ":")) + "\n")
                    elif k_ in ("epilogue", "harness-panic"):
                        flush()
                        o.write(json.dumps({"e": "end"}) + "\n")
                flush()
            paths.append(out)
        cfgname = "ClientTrace_%s.cfg" % name
        def one(i):
            cwd = ctx.specdir("conf-%s-%d" % (name, i))
            with open(os.path.join(cwd, cfgname), "w") as f:
                f.write(("CONSTANTS Script <- %s Script2 <- %s MaxStops = %d MaxDamage = 0 DEV_F2 = FALSE DEV_F10 = FALSE DEV_F19 = FALSE "
                         "DEV_F25 = FALSE DEV_F4 = FALSE DEV_F6 = FALSE Blocking = TRUE InitStore <- NoStore InitDamage = 0 InMsgs <- %s AMax = %d EMax = %d MaxConns = 50 DialFails = 50 "
                         "WriteFails = 50 ReadFails = 50 StoreFails = 50 MaxCalls = 1000 RecordHist = FALSE SampleK = 1\n"
                         "SPECIFICATION TSpec\nCHECK_DEADLOCK FALSE\n") % (
                    c["script"], c.get("script2", "NoGen2"), 1 if c.get("stops") else 0, c.get("inmsgs", "NoIn"), c["amax"], c["emax"]))
            rp = paths[i] + ".result.json"
            res = ctx.tlc("ClientTrace", cfgname, workers=1, timeout=900, cwd=cwd, env={"VERIF_TRACE": paths[i], "VERIF_RESULT": rp}, count=False)
            if not os.path.exists(rp):
                raise vlib.Inconclusive("ClientTrace produced no result for %s: %s" % (name, (res.error or res.out[-1500:])))
            with open(rp) as f:
                return json.loads(f.readline())
        import concurrent.futures as cf
        with cf.ThreadPoolExecutor(max_workers=4) as ex:
            results = list(ex.map(one, range(len(paths))))
        for (sb, tp), r in zip(shards, results):
            total["executions"] += len(sb)
            total["steps"] += r["steps"]
            for cid, seq, why in r["bad"]:
                ev = None
                for line in open(tp):
                    if ('"case":%d,' % cid) in line and ('"seq":%d,' % seq in line or '"seq":%d}' % seq in line):
                        ev = json.loads(line)
                        break
                at = (ev or {}).get("at", "")
                if at in ("lw.wait",) or at.startswith("abort."):
                    total["select_races"] += 1
                    continue
                total["rejected"] += 1
                key = "%s: %s at %s" % (name, why, at or (ev or {}).get("e", "?"))
                reasons[key] = reasons.get(key, 0) + 1
                if sum(reasons.values()) <= 6:
                    ctx.save_replay("rejected-%s.json" % sb[cid - 1]["id"],
                                    {"behaviour": scripted_from_trace(sb[cid - 1], tp, cid), "rejected": {"seq": seq, "why": why, "event": ev}})
    ctx.cov["code_to_model"] = dict(total, reasons=reasons)


def behaviours(ctx, families):
    rnd = random.Random(ctx.seed * 7919 + vlib.stable_hash(ctx.prop))
    thorough = ctx.tier != "quick"
    per = (3600 if thorough else 720) // max(1, len(families))
    res = []
    for f in families:
        if f not in GEN:
            continue
        for i in range(per):
            res.append(GEN[f](rnd, i, thorough))
    return res


def run(ctx, replay=None):
    ctx.level = "exploration"
    binary = ctx.go_build()
    fams = FAMILIES[ctx.prop]
    if replay:
        with open(replay) as f:
            data = json.load(f)
        # Go's select chooses at random among ready cases: a recorded schedule is followed only when the same choices
        # fall again, so the behaviour is executed several times side by side
        behs = [dict(data["behaviour"], id="%s#%d" % (data["behaviour"]["id"], k)) for k in range(8)]
    else:
        behs = behaviours(ctx, fams) + [f() for f in EXTRA.get(ctx.prop, [])]
        mcs = MC_FOR.get(ctx.prop, [])
        cap = (1200 if ctx.tier == "quick" else 8000) // max(1, len(mcs))
        for name in mcs:
            if MC[name].get("thorough_only") and ctx.tier == "quick":
                continue
            behs += tlc_behaviours(ctx, name, cap)
        # behaviours that once exposed a finding (recorded schedules); several copies: Go's select is random
        cdir = os.path.join(vlib.VERIF, "corpus", ctx.prop)
        for fn in sorted(os.listdir(cdir)) if os.path.isdir(cdir) else []:
            with open(os.path.join(cdir, fn)) as f:
                cb = json.load(f)["behaviour"]
            behs += [dict(cb, id="corpus-%s#%d" % (fn[:-5], k), dev="corpus") for k in range(6)]
            ctx.cov["corpus_behaviours"] = ctx.cov.get("corpus_behaviours", 0) + 1
        for name in LIVE_FOR.get(ctx.prop, []):
            tlc_liveness(ctx, name)   # temporal clauses of the property on the design, under fairness
        if mcs:
            ctx.level = "model_checking"
            conformance(ctx, binary, mcs, 30 if ctx.tier == "quick" else 300)
    if not behs:
        raise vlib.Inconclusive("no behaviours")
    execute_and_judge(ctx, binary, behs)
    ctx.cov["rule"] = ("seeded random schedules over the gate points of the real client (families %s) with faults "
                       "(failed/partial/timed-out writes, failed dials, store errors, connection breaks, stops + adoptions); "
                       "non-trivial = the trace contains at least one fault or more than one process; distinct by seed" % ",".join(fams))
    ctx.cov["checker_cmd"] = "tlc MC_client (design + export) ; verifworker run ; tlc MonitorRun"


def execute_and_judge(ctx, binary, behs, confirm=True):
    shards = pipeline.run_worker(ctx, binary, "run", behs, nshards=vlib.NCPU, timeout=1200)
    results = pipeline.judge(ctx, "MonitorRun", "MonitorRun.cfg", [tp for _, tp in shards])
    owns = OWNS.get(ctx.prop, [ctx.prop + "_"])
    found = []
    nev = 0
    for (sb, tp), r in zip(shards, results):
        nev += r["done"]
        badcases = {}
        for clause, cid, seq in r["bad"]:
            badcases.setdefault(cid, set()).add((clause, seq))
        for cid, items in badcases.items():
            for clause, seq in sorted(items, key=lambda x: x[1]):
                if clause.startswith("Harness_"):
                    ctx.save_replay("harness-%s-%s.json" % (clause, sb[cid - 1]["id"]), {"behaviour": sb[cid - 1], "clause": clause, "event_seq": seq})
                    ctx.cov["harness_anomalies"] = ctx.cov.get("harness_anomalies", 0) + 1
                    continue
                if any(clause.startswith(o) for o in owns):
                    found.append((clause, sb[cid - 1], tp, cid, seq))
        owned_bad = {cid for cid, items in badcases.items() if any(cl.startswith(o) for cl, _ in items for o in owns)}
        ctx.cov["traces_validated_against_impl"] += len(sb) - len(owned_bad)
    ctx.cov["evaluations"] += len(behs)
    ctx.cov["events_judged"] = ctx.cov.get("events_judged", 0) + nev
    ctx.cov["distinct_nontrivial"] += sum(1 for b in behs if len(b["procs"]) > 1 or (b.get("random") or {}).get("faults", 0) > 0
                                          or b.get("steps") or (b.get("frame") or {}).get("cuts"))
    ctx.cov["samples"] = (ctx.cov["samples"] + behs[:2])[:4]
    ndiv = nrace = nmis = 0
    misfields = ctx.cov.setdefault("state_mismatch_fields", {})
    for sb, tp in shards:
        with open(tp) as f:
            for line in f:
                if ('"e":"diverge"' in line or '"e":"mismatch"' in line) and sb[json.loads(line)["case"] - 1].get("dev"):
                    # a behaviour of the specification with a pinned defect switched on: the repaired code leaves it
                    ctx.cov["regenerated_not_reproduced"] = ctx.cov.get("regenerated_not_reproduced", 0) + ('"e":"diverge"' in line)
                    continue
                if '"e":"diverge"' in line:
                    if "select-race" in line:
                        nrace += 1
                    else:
                        ndiv += 1
                        if ndiv <= 5:
                            e = json.loads(line)
                            ctx.save_replay("diverge-%s.json" % sb[e["case"] - 1]["id"], {"behaviour": sb[e["case"] - 1], "diverge": e})
                elif '"e":"harness-panic"' in line:
                    raise vlib.Inconclusive("the harness itself failed: " + line[:300])
                elif '"e":"harness-incomplete"' in line:
                    raise vlib.Inconclusive("a long history did not reach its end in time (overloaded machine?): " + line[:300])
                elif '"e":"mismatch"' in line:
                    if "select-race" in line:
                        nrace += 1
                        continue
                    nmis += 1
                    e = json.loads(line)
                    k = "%s want=%s got=%s" % (e.get("field"), e.get("want"), e.get("got"))
                    misfields[k] = misfields.get(k, 0) + 1
                    if len(misfields) <= 5 and misfields[k] == 1:
                        ctx.save_replay("mismatch-%s-%s.json" % (e.get("field"), sb[e["case"] - 1]["id"]), {"behaviour": sb[e["case"] - 1], "mismatch": e})
    ctx.cov["state_mismatches"] = ctx.cov.get("state_mismatches", 0) + nmis
    ctx.cov["state_comparisons"] = ctx.cov.get("state_comparisons", 0) + sum(1 for b in behs for st in b.get("steps") or [] if "x" in st)
    ctx.cov["divergences"] = ctx.cov.get("divergences", 0) + ndiv
    ctx.cov["select_races"] = ctx.cov.get("select_races", 0) + nrace
    seen = {}
    for clause, beh, tp, cid, seq in found:
        sig = signature(tp, cid, seq)
        key = (clause, sig.get("site", ""), sig.get("m", ""))
        seen[key] = seen.get(key, 0) + 1
        if seen[key] > 2:
            continue
        b2 = scripted_from_trace(beh, tp, cid) if beh.get("random") else dict(beh)
        path = ctx.save_replay("%s-%s.json" % (clause, beh["id"]), {"behaviour": b2, "clause": clause, "event_seq": seq, "signature": sig,
                                                                    "explored_as": beh if beh.get("random") else None})
        try:   # the recorded trace of that execution, for diagnosis
            with open(path[:-5] + ".trace", "w") as out, open(tp) as f:
                for line in f:
                    if ('"case":%d,' % cid) in line or ('"case":%d}' % cid) in line:
                        out.write(line)
        except OSError:
            pass
        ctx.violation(clause, "behaviour=%s event=%s %s" % (beh["id"], seq, json.dumps(sig)[:200]), replay=path, sig=sig)
    ctx.cov["predicate_failures"] = {"%s@%s/%s" % k: v for k, v in seen.items()}


def scripted_from_trace(beh, trace_path, cid):
    """The schedule the explorer took, as a step-by-step behaviour: the replay does not depend on timing."""
    steps = []
    with open(trace_path) as f:
        for line in f:
            if '"e":"step"' not in line or not ('"case":%d,' % cid in line or '"case":%d}' % cid in line):
                continue
            e = json.loads(line)
            if e.get("case") != cid:
                continue
            if "env" in e:
                st = {"env": e["env"]}
                for k in ("c", "key", "how", "start", "in", "host", "p"):
                    if e.get(k) not in (None, 0, ""):
                        st[k] = e[k]
            else:
                st = {"p": e["p"], "at": e["at"], "o": e["o"], "n": e.get("n", 0)}
            steps.append(st)
    r = beh["random"]
    b2 = {k: v for k, v in beh.items() if k != "random"}
    b2.update({"id": beh["id"], "steps": steps, "auto": True, "mute": r.get("mute", []), "listseed": r["seed"] + 17})
    return b2


def signature(trace_path, cid, seq):
    """The event at which the clause failed, reduced to what identifies the culprit."""
    ev = None
    with open(trace_path) as f:
        for line in f:
            if '"case":%d,' % cid in line or '"case":%d}' % cid in line:
                e = json.loads(line)
                if e.get("case") == cid and e.get("seq") == seq:
                    ev = e
                    break
    if ev is None:
        return {}
    sig = {"e": ev.get("e"), "m": ev.get("m", ""), "site": ev.get("site", ""), "p": ev.get("p", "")}
    if "record 0x0 unavailable" in ev.get("site", ""):
        sig["cause"] = "client-id-record"   # every connect fails on the Load of the damaged client identifier (F11b)
    if ev.get("e") == "ret":
        sig["err"] = ",".join(ev.get("err", []))
    if ev.get("e") == "cw":
        sig["pk"] = ",".join(p["t"] for p in ev.get("pk", []))
    return sig
