"""TLC -> Go -> TLC pipeline shared by the engines:
   1. model-check a bounded configuration (design-level result) and export stimulus cases,
   2. run the cases through the real code with the Go worker (records only),
   3. judge the recorded traces with a TLA+ trace module (TLC evaluates the predicates)."""
import json, os, subprocess, concurrent.futures as cf
import vlib


def parse_cases(out, tag="CASE", limit=40000):
    """out: a TlcResult (its output file is read line by line) or a string."""
    pre = '<<"%s", ' % tag
    cases = []
    if hasattr(out, "path") and tag in ("CASE", "BAD", "RARE"):
        lines = (l.rstrip("\n") for l in open(out.path, errors="replace"))
    else:
        lines = (out.out if hasattr(out, "out") else out).splitlines()
    for line in lines:
        if len(cases) >= limit:      # (an export far beyond what can be executed: keep memory bounded)
            break
        if line.startswith(pre) and line.endswith(">>"):
            try:
                cases.append(json.loads(json.loads(line[len(pre):-2])))
            except Exception:
                raise vlib.Inconclusive("cannot parse exported case: " + line[:200])
    return cases


def model_check(ctx, module, cfg, workers=None, timeout=1800, args=(), expect_ok=True):
    res = ctx.tlc(module, cfg, workers=workers, timeout=timeout, args=args)
    if expect_ok and not res.ok:
        # A counterexample in the DESIGN is a specification problem until the code reproduces it.
        raise vlib.Inconclusive("design-level check %s/%s did not pass: %s" % (
            module, cfg, res.invariant or res.error))
    return res


def run_worker(ctx, binary, engine, cases, nshards=None, args=(), timeout=900, env=None):
    """Runs the cases sharded over worker processes; returns list of (cases_of_shard, trace_path)."""
    nshards = nshards or min(vlib.NCPU, max(1, len(cases) // 200))
    shards = vlib.shard(cases, nshards)
    outs = []

    def one(i):
        inp = "\n".join(json.dumps(c, separators=(",", ":")) for c in shards[i]) + "\n"
        tp = os.path.join(ctx.tmp, "trace-%s-%d.ndjson" % (engine, i))
        with open(tp, "w") as f:
            p = subprocess.run([binary, engine] + list(args), input=inp, stdout=f, stderr=subprocess.PIPE,
                               text=True, env=ctx.env(env), timeout=timeout)
        if p.returncode != 0:
            raise vlib.Inconclusive("worker %s shard %d failed: %s" % (engine, i, p.stderr[-2000:]))
        return (shards[i], tp)

    with cf.ThreadPoolExecutor(max_workers=vlib.NCPU) as ex:
        outs = list(ex.map(one, range(len(shards))))
    return outs


def judge(ctx, module, cfg, traces, timeout=1200, extra_env=None, chunk=30000):
    """Runs the TLA+ trace module on every trace file in parallel (single-worker TLC runs with a bounded heap).
    A long trace is judged in pieces that start at "reset" lines (TLC holds the whole piece in memory).
    Returns a list of result records (done, bad, div, ...) in the order of traces."""
    def pieces(tp):
        nlines = sum(1 for _ in open(tp))
        if nlines <= chunk:
            return [tp], nlines
        out, cur, n, k = [], None, 0, 0
        for line in open(tp):
            if cur is None or (n >= chunk and line.startswith('{"case":') and '"e":"reset"' in line[:40]):
                if cur is not None:
                    cur.close()
                k += 1
                name = "%s.part%d" % (tp, k)
                out.append(name)
                cur, n = open(name, "w"), 0
            cur.write(line)
            n += 1
        if cur is not None:
            cur.close()
        return out, nlines

    def one(i):
        tp = traces[i]
        parts, nlines = pieces(tp)
        total = None
        for j, part in enumerate(parts):
            rp = part + ".result.json"
            cwd = ctx.specdir("j%d" % i)
            env = {"VERIF_TRACE": part, "VERIF_RESULT": rp}
            if extra_env:
                env.update(extra_env)
            res = ctx.tlc(module, cfg, workers=1, timeout=timeout, cwd=cwd, env=env, count=False, heap="3g")
            if not os.path.exists(rp):
                raise vlib.Inconclusive("trace judge %s produced no result for %s: %s" % (
                    module, os.path.basename(part), res.error or res.invariant or res.out[-1500:]))
            with open(rp) as f:
                r = json.loads(f.readline())
            if total is None:
                total = r
            else:
                total["done"] += r["done"]
                total["bad"] += r["bad"]
                if "div" in r:
                    total["div"] = total.get("div", []) + r["div"]
            if part != tp:
                os.remove(part)
        if total.get("done") != nlines:
            raise vlib.Inconclusive("trace judge consumed %s of %d lines of %s" % (total.get("done"), nlines, tp))
        return total

    with cf.ThreadPoolExecutor(max_workers=vlib.NCPU) as ex:
        return list(ex.map(one, range(len(traces))))
