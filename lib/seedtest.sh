#!/bin/sh
# usage: seedtest.sh <patch.diff> <prop> [tier]   applies a seeded change to /repo, runs the property's check, reverts
patch=$1; prop=$2; tier=${3:-quick}
cd /repo || exit 9
git apply "$patch" || { echo "PATCH DOES NOT APPLY"; exit 9; }
(cd /verif && timeout 900 ./check $prop $tier | cut -c1-260 | head -${MUTLINES:-3}; echo "exit=$?")
git -C /repo checkout -- .
git -C /repo status --short
