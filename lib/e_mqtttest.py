"""C20 - mqtttest doubles. spec/MqttTest.tla (design), MC_mqtttest (bounded instances + export),
MqttTestTrace (judge of traces recorded from the real doubles)."""
import json, os
import vlib, pipeline


def run(ctx, replay=None):
    ctx.level = "model_checking"
    binary = ctx.go_build()
    if replay:
        with open(replay) as f:
            cases = [json.load(f)["case"]]
    else:
        cfg = "MC_mqtttest_q.cfg" if ctx.tier == "quick" else "MC_mqtttest_t.cfg"
        res = pipeline.model_check(ctx, "MC_mqtttest", cfg, args=["-seed", str(ctx.seed)])
        cases = pipeline.parse_cases(res)
        if ctx.tier != "quick":
            # the exhaustive small configuration as well, so that thorough is a superset of quick
            res2 = pipeline.model_check(ctx, "MC_mqtttest", "MC_mqtttest_q.cfg")
            cases += pipeline.parse_cases(res2)
        ctx.cov["exhaustive"] = ctx.tier == "quick"
        if not cases:
            raise vlib.Inconclusive("TLC exported no cases")
    shards = pipeline.run_worker(ctx, binary, "mqtttest", cases)
    results = pipeline.judge(ctx, "MqttTestTrace", "MqttTestTrace.cfg", [tp for _, tp in shards])
    nbad = ndiv = 0
    seen = {}
    for (scases, tp), r in zip(shards, results):
        ndiv += len(r["div"])
        badcases = {}
        for clause, cid in r["bad"]:
            badcases.setdefault(cid, []).append(clause)
        for cid, clauses in sorted(badcases.items()):
            case = scases[cid - 1]
            kind = case["dbl"]["kind"]
            for clause in clauses:
                nbad += 1
                key = (clause, kind)
                seen[key] = seen.get(key, 0) + 1
                if seen[key] > 2:
                    continue
                path = ctx.save_replay("%s-%s-%d.json" % (clause, kind, cid), {"case": case, "clause": clause})
                ctx.violation(clause, "double=%s calls=%s cleanup=%s" % (kind, json.dumps(case["calls"]), case["cleanup"]),
                              replay=path, sig={"kind": kind})
        ctx.cov["traces_validated_against_impl"] += len(scases) - len(badcases)
    ctx.cov["evaluations"] = len(cases)
    ctx.cov["distinct_nontrivial"] = sum(1 for c in cases if c["calls"])
    ctx.cov["rule"] = ("every terminal history of the bounded MqttTest model (thorough: seeded 1/200 sample of the larger "
                       "instance plus the whole small one); non-trivial = at least one invocation; all cases distinct")
    ctx.cov["divergences"] = ndiv
    ctx.cov["predicate_failures"] = {"%s/%s" % k: v for k, v in seen.items()}
    ctx.cov["samples"] = cases[:2] + cases[-1:]
    ctx.cov["checker_cmd"] = "tlc MC_mqtttest (design + export) ; verifworker mqtttest ; tlc MqttTestTrace (judge)"
    ctx.assumptions += ["'stays open' of an exchange channel is observed as 150 ms of silence",
                        "duplicate filters within one invocation are not judged (the property does not say)"]
