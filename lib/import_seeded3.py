#!/usr/bin/env python3
"""Imports confirmed seeded changes of the third round: /tmp/wt3/<P>.out/change<k>/ -> /verif/seeded/S-<P>-<k+2>/
   usage: import_seeded3.py P[:k=id] ...   (an explicit id replaces the default, e.g. C11:1=S-C11-1)"""
import json, os, shutil, sys, subprocess
head = subprocess.run(["git", "-C", "/repo", "rev-parse", "--short", "HEAD"], capture_output=True, text=True).stdout.strip()
for arg in sys.argv[1:]:
    pid, _, rest = arg.partition(":")
    explicit = dict(x.split("=") for x in rest.split(",") if x)
    for k in (1, 2):
        src = "%s/%s.out/change%d" % (os.environ.get("WT", "/tmp/wt3"), pid, k)
        if not os.path.exists(src + "/patch.diff"):
            continue
        sid = explicit.get(str(k), "S-%s-%d" % (pid, k + int(os.environ.get("OFFSET", "2"))))
        dst = "/verif/seeded/%s" % sid
        if os.path.isdir(dst):
            shutil.rmtree(dst)
        os.makedirs(dst)
        shutil.copy(src + "/patch.diff", dst + "/patch.diff")
        shutil.copy(src + "/demo_test.go", dst + "/demo_test.go")
        meta = {"id": sid, "property": pid, "round": int(os.environ.get("ROUND", "3")),
                "origin": "fresh sub-agent given only the property text and a scratch worktree",
                "notes": open(src + "/notes.md").read().strip(),
                "confirmed": {"repo_head": head,
                              "ran": ["go build ./... ; go build -tags verif ./... (with patch: ok)",
                                      "go test -vet=off -count=1 ./... with the patch: pass",
                                      "go test -run Seeded with the patch + demonstration: FAIL",
                                      "go test -run Seeded on the unchanged tree: pass"],
                              "where": "scratch worktree /tmp/wt-rb at %s (removed afterwards)" % head}}
        json.dump(meta, open(dst + "/meta.json", "w"), indent=1)
        print("imported", sid)
