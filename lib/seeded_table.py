#!/usr/bin/env python3
"""Rewrites the table of section 8 of DESIGN.md from seeded/RESULTS.tsv and the meta.json files."""
import json, os, re
V = "/verif"
rows = []
for line in open(V + "/seeded/RESULTS.tsv"):
    f = line.rstrip("\n").split("\t")
    if len(f) < 5:
        continue
    sid, prop, applies, rc, clause = f[:5]
    meta = json.load(open("%s/seeded/%s/meta.json" % (V, sid)))
    what = meta.get("notes", "").split("\n")[0]
    what = re.sub(r"^\*\*?Change[^:]*:\*?\*?\s*", "", what)
    what = re.sub(r"^Change[^:]*:\s*", "", what).strip()
    what = (what[:150] + "…") if len(what) > 150 else what
    verdict = "caught: `%s`" % clause if rc == "1" else ("**missed**" if rc == "0" else "inconclusive")
    if applies != "yes":
        verdict = "does not apply to the current tree"
    rows.append((sid, prop, what.replace("|", "/"), verdict))
caught = sum(1 for r in rows if r[3].startswith("caught"))
out = ["| id | change (first line of the author's note) | quick check of its property |", "|---|---|---|"]
for sid, prop, what, verdict in sorted(rows):
    out.append("| %s | %s | %s |" % (sid, what, verdict))
out.append("")
out.append("**%d of %d** seeded changes are reported by the quick check of their own property (seed 1)." % (caught, len(rows)))
text = "\n".join(out)
p = V + "/DESIGN.md"
s = open(p).read()
a, b = "<!-- seeded-table -->", "<!-- /seeded-table -->"
if a in s:
    s = s[:s.index(a) + len(a)] + "\n" + text + "\n" + s[s.index(b):]
else:
    s = s.replace("(table pending: `seeded/RESULTS.tsv`)", a + "\n" + text + "\n" + b)
open(p, "w").write(s)
print(caught, "of", len(rows))
