"""C15 - stored records: spec/Rugged.tla (layout, FNV-1a in 16-bit limbs, damage theorem on
bounded records), RuggedJudge.tla (judge of what the real encoding did)."""
import json, os, random
import vlib, pipeline

SEQS = [[0] * 8, [1, 0, 0, 0, 0, 0, 0, 0], [0, 0, 0, 0, 1, 0, 0, 0], [255] * 8, [255, 255, 255, 255, 0, 0, 0, 0]]


def cases_for(ctx):
    rnd = random.Random(ctx.seed)
    quick = ctx.tier == "quick"
    cases = []
    # encode/decode conformance: model-sized and real-sized packets, split over buffers
    lens = [0, 1, 2, 3, 11, 12, 13, 127, 128, 129, 1000] + ([70000] if quick else [70000, 300000])
    for n in lens:
        for s in SEQS + [[rnd.randrange(256) for _ in range(8)]]:
            p = [rnd.randrange(256) for _ in range(n)]
            cases.append(dict(op="enc", p=p, split=rnd.randrange(n + 1) if n else 0, s=s))
    # every position x every value x every truncation, for records of several lengths
    for n in ([0, 1, 5, 23, 64] if quick else [0, 1, 2, 5, 23, 64, 200, 1000]):
        for s in (SEQS[:4] if quick else SEQS) + [[rnd.randrange(256) for _ in range(8)]]:
            cases.append(dict(op="dmg", p=[rnd.randrange(256) for _ in range(n)], split=rnd.randrange(n + 1), s=s, vals=[]))
    # multi-buffer sized record, seeded replacement values
    cases.append(dict(op="dmg", p=[rnd.randrange(256) for _ in range(4096 if quick else 70000)], split=100, s=SEQS[3],
                      vals=[rnd.randrange(256) for _ in range(3)]))
    # the same through the public API
    for lvl in (1, 2):
        for msg in ([0, 5] if quick else [0, 1, 5, 100]):
            cases.append(dict(op="api", msg=msg, level=lvl, vals=[] if not quick else [0, 255, rnd.randrange(1, 255), rnd.randrange(1, 255)], posstep=1))
    cases.append(dict(op="api", msg=3000 if quick else 140000, level=1, vals=[rnd.randrange(256), rnd.randrange(256)], posstep=97 if quick else 1009))
    return cases


def run(ctx, replay=None):
    binary = ctx.go_build()
    if replay:
        with open(replay) as f:
            cases = [json.load(f)["case"]]
    else:
        cfg = "MC_rugged_q.cfg" if ctx.tier == "quick" else "MC_rugged_t.cfg"
        pipeline.model_check(ctx, "MC_rugged", cfg)
        cases = cases_for(ctx)
    shards = pipeline.run_worker(ctx, binary, "rugged", cases, nshards=min(vlib.NCPU, len(cases)))
    results = pipeline.judge(ctx, "RuggedJudge", "RuggedJudge.cfg", [tp for _, tp in shards])
    tried = 0
    longtrunc = 0
    for (scases, tp), r in zip(shards, results):
        rows = vlib.read_ndjson(tp)
        tried += sum(x.get("tried", 0) for x in rows)
        longtrunc += sum(x.get("long_trunc_undetected", 0) for x in rows)
        badcases = {}
        for clause, cid in r["bad"]:
            badcases.setdefault(cid, []).append(clause)
        for cid, clauses in badcases.items():
            case = scases[cid - 1]
            detail = [x for x in rows if x["case"] == cid and (x.get("undetected") or x.get("not_warned") or x.get("not_deleted")
                                                               or x.get("counted") or x.get("dialed") or x["ev"] == "enc")]
            what = "op=%s" % case["op"]
            if detail:
                d = detail[0]
                what += " ev=%s key=%s undetected=%s not_warned=%s not_deleted=%s counted=%s dialed=%s" % (
                    d["ev"], d.get("key"), d.get("undetected", [])[:3], d.get("not_warned", [])[:3], d.get("not_deleted", [])[:3],
                    d.get("counted", [])[:3], d.get("dialed", [])[:3])
            for clause in clauses:
                small = dict(case)
                path = ctx.save_replay("%s-%d.json" % (clause, vlib.stable_hash(json.dumps(case)) % 100000), {"case": small, "clause": clause})
                ctx.violation(clause, what, replay=path, sig={"op": case["op"], "ev": detail[0]["ev"] if detail else ""})
        ctx.cov["traces_validated_against_impl"] += len(scases) - len(badcases)
    ctx.cov["evaluations"] = tried + len(cases)
    ctx.cov["distinct_nontrivial"] = tried
    ctx.cov["rule"] = ("enc: (packet, sequence number) pairs incl. 0, 2^32, 2^64-1, multi-buffer; dmg: EVERY position x EVERY other byte "
                       "value and every truncation of encoded records; api: the same alterations on values a real client saved, fed to "
                       "AdoptSession / a connecting client. distinct_nontrivial counts single damaged variants executed on the real code")
    ctx.cov["long_truncations_undetected_measured_not_claimed"] = longtrunc
    ctx.cov["samples"] = [dict(c, p="(%d bytes)" % len(c["p"])) if "p" in c else c for c in cases[:2] + cases[-2:]]
    ctx.cov["checker_cmd"] = "tlc MC_rugged ; verifworker rugged ; tlc RuggedJudge ; verifworker run ; tlc MonitorRun"
    if not replay:
        # records saved by concurrently publishing goroutines of a real client (clause C15_StoredRecordValid of Monitor.tla)
        import e_client
        saved = dict(ctx.cov)
        behs = e_client.behaviours(ctx, ["out", "restart"])[: (200 if ctx.tier == "quick" else 1500)]
        e_client.execute_and_judge(ctx, binary, behs)
        ctx.cov["samples"] = saved["samples"]
    ctx.assumptions += ["multi-byte damage is measured, not claimed (32-bit checksum)",
                        "the resend path (Load of a record damaged after adoption) is covered by the client engine (C16)"]
